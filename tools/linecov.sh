#!/bin/bash
# tools/linecov.sh [ids...]: run quick checks with line recording of the tree under test and report lines no check ran.
d=${VERIF_LINECOV:-/tmp/verif_linecov}; mkdir -p $d
cd /verif
for c in ${@:-C01 C02 C03 C04 C05 C06 C07 C08 C09 C10 C11 C12 C13 C14 C15 C16 C17 C18 C19 C20}; do
  VERIF_LINECOV=$d VERIF_LINECOV_TAG=$c VERIF_NO_EVIDENCE=1 VERIF_SCHEMA=0 ./check $c | grep -v "^KNOWN" | tail -1
done
/venv/bin/python tools/linecov_report.py $d
