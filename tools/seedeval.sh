#!/bin/bash
# usage: tools/seedeval.sh <seed-worktree> <seed-id> <check ids...>
# Confirms a sub-agent's seeded defect independently (tests pass with it, demo fails with it / passes without it) in a
# fresh scratch worktree of /repo HEAD, runs the given quick checks against it, and stores it under /verif/seeded/<seed-id>/.
src=$1; sid=$2; shift 2
out=/verif/seeded/$sid
[ -f $src/seed_out/patch.diff ] || { echo "no patch in $src/seed_out"; exit 2; }
d=/tmp/seedeval_$sid
git -C /repo worktree remove --force $d >/dev/null 2>&1
git -C /repo worktree add -q --detach $d HEAD || exit 2
cp $src/seed_out/demo.py $d/demo_seed.py
echo "--- demo WITHOUT the change:"; (cd $d && PYTHONPATH=$d timeout 900 /venv/bin/python demo_seed.py >/tmp/seedeval_$sid.without 2>&1; echo "exit=$?")
if ! git -C $d apply $src/seed_out/patch.diff; then echo "PATCH DOES NOT APPLY to /repo HEAD"; git -C /repo worktree remove --force $d; exit 2; fi
echo "--- tests WITH the change:"; (cd $d && PYTHONPATH=$d /venv/bin/python -m pytest -q -p no:cacheprovider --timeout=900 2>&1 | tail -1)
echo "--- demo WITH the change:"; (cd $d && PYTHONPATH=$d timeout 900 /venv/bin/python demo_seed.py >/tmp/seedeval_$sid.with 2>&1; echo "exit=$?"; tail -3 /tmp/seedeval_$sid.with | cut -c1-300)
mkdir -p $out
cp $src/seed_out/patch.diff $out/patch.diff; cp $src/seed_out/demo.py $out/demo.py; cp $src/seed_out/notes.txt $out/agent_notes.txt 2>/dev/null
for c in "$@"; do
  o=$(cd /verif && DFOLS_REPO=$d VERIF_NO_EVIDENCE=1 VERIF_SCHEMA=0 ./check $c 2>&1); rc=$?
  echo "== $c rc=$rc: $(echo "$o" | grep -c '^VIOLATION') VIOLATION lines; $(echo "$o" | grep -E 'clause=|HARNESS' | head -2 | tr '\n' ' ' | cut -c1-400)"
  echo "$o" | grep -E "^\[|by clause" | tail -2
done
rm -f $d/demo_seed.py
git -C /repo worktree remove --force $d
