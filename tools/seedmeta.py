#!/usr/bin/env python3
"""tools/seedmeta.py <seed-id> <property> <detected: yes|no|partial> <checks run (comma)> <needs...> -- <observed...>"""
import json, sys, os, subprocess
sid, prop, det, checks = sys.argv[1:5]
rest = sys.argv[5:]
i = rest.index("--")
needs, observed = " ".join(rest[:i]), " ".join(rest[i + 1:])
head = subprocess.check_output(["git", "-C", "/repo", "log", "--format=%h", "-1"]).decode().strip()
d = {"seed_id": sid, "breaks_property": prop, "needs_to_manifest": needs, "repo_head_when_evaluated": head,
     "confirmed": "in a fresh scratch worktree of /repo HEAD: demo exits 0 without the patch; with the patch the 118 repository "
                  "tests pass and the demo exits 1 (tools/seedeval.sh)",
     "checks_run": checks.split(","), "detected": det, "observed": observed,
     "how_to_rerun": "git -C /repo apply /verif/seeded/%s/patch.diff && (cd /verif && ./check %s); git -C /repo checkout -- ." % (sid, checks.split(",")[0])}
p = "/verif/seeded/%s/meta.json" % sid
json.dump(d, open(p, "w"), indent=1)
print("wrote", p)
