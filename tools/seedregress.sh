#!/bin/bash
# usage: tools/seedregress.sh [seed-id ...]   (default: all of /verif/seeded)
# Re-runs every recorded seeded change against the quick tier of the check(s) named in its meta.json (field checks_run),
# in a scratch worktree of /repo HEAD, and prints one line per seed: DETECTED / MISSED / NOAPPLY.
cd /verif
ids="$@"; [ -z "$ids" ] && ids=$(cd seeded && ls -d C[0-9][0-9]_?)
for sid in $ids; do
  d=/tmp/seedregress_$sid
  git -C /repo worktree remove --force $d >/dev/null 2>&1
  git -C /repo worktree add -q --detach $d HEAD || { echo "$sid WORKTREE-FAIL"; continue; }
  if ! git -C $d apply /verif/seeded/$sid/patch.diff 2>/dev/null && ! git -C $d apply -3 /verif/seeded/$sid/patch.diff 2>/dev/null; then
    echo "$sid NOAPPLY"; git -C /repo worktree remove --force $d; continue
  fi
  checks=$(/venv/bin/python -c "import json;print(' '.join(json.load(open('seeded/$sid/meta.json'))['checks_run']))")
  res=""
  for c in $checks; do
    o=$(DFOLS_REPO=$d VERIF_NO_EVIDENCE=1 VERIF_SCHEMA=0 ./check $c 2>&1); rc=$?
    res="$res $c:rc=$rc:$(echo "$o" | grep -c '^VIOLATION')"
  done
  case "$res" in *rc=1*) echo "$sid DETECTED$res";; *) echo "$sid MISSED$res";; esac
  git -C /repo worktree remove --force $d
done
