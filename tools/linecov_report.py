#!/usr/bin/env python3
"""tools/linecov_report.py <dir> [repo]: merge the per-process line sets written under VERIF_LINECOV and list the
executable lines of <repo>/dfols/*.py that NO check executed, and which checks executed each file's rarely hit lines."""
import sys, os, json, glob, collections
d = sys.argv[1]
repo = sys.argv[2] if len(sys.argv) > 2 else "/repo"
hit = collections.defaultdict(set)      # (file, line) -> set of check tags
for p in glob.glob(os.path.join(d, "*.json")):
    tag = os.path.basename(p).split(".")[0]
    for f, l in json.load(open(p)):
        hit[(f, l)].add(tag)


def exec_lines(path):
    src = open(path).read()
    out = set()

    def walk(co, depth_is_func):
        # module and class bodies run at import (before recording starts) and a function's `def` line carries no LINE
        # event: only the lines inside function bodies are counted
        if depth_is_func:
            for _, _, ln in co.co_lines():
                if ln is not None and ln != co.co_firstlineno:
                    out.add(ln)
        for c in co.co_consts:
            if hasattr(c, "co_lines"):
                walk(c, c.co_name not in ("<module>",) and not _is_class_body(c))
    def _is_class_body(c):
        return "__qualname__" in c.co_names and "__module__" in c.co_names
    walk(compile(src, path, "exec"), False)
    return out, src.split("\n")


tot = cov = 0
for path in sorted(glob.glob(os.path.join(repo, "dfols", "*.py"))):
    fn = os.path.basename(path)
    if fn in ("version.py",):
        continue
    ex, src = exec_lines(path)
    miss = sorted(l for l in ex if (fn, l) not in hit)
    tot += len(ex); cov += len(ex) - len(miss)
    print("== %s: %d executable lines, %d never executed by any check" % (fn, len(ex), len(miss)))
    for l in miss:
        print("   %5d  %s" % (l, src[l - 1].rstrip()[:150]))
    rare = sorted(l for l in ex if (fn, l) in hit and len(hit[(fn, l)]) == 1)
    if "--rare" in sys.argv:
        for l in rare:
            print("   only %s: %5d  %s" % (sorted(hit[(fn, l)])[0], l, src[l - 1].rstrip()[:120]))
print("TOTAL %d/%d executable lines executed under at least one check" % (cov, tot))
