#!/bin/bash
# usage: tools/seedsetup.sh <property-id> <wave-letter>
# Creates /tmp/seed_<id>_<w>: a scratch worktree of /repo HEAD holding PROPERTY.txt (the property text only) and
# ALREADY_USED.txt (one line per change already produced for this property, so that a new one is different).
p=$1; w=$2; d=/tmp/seed_${p}_$w
git -C /repo worktree remove --force $d >/dev/null 2>&1
git -C /repo worktree add -q --detach $d HEAD || exit 2
/venv/bin/python - "$p" "$d" <<'PY'
import json, sys, glob, os
p, d = sys.argv[1:3]
for l in open('/verif/properties.jsonl'):
    r = json.loads(l)
    if r['id'] == p:
        with open(d + '/PROPERTY.txt', 'w') as f:
            f.write("%s: %s\n\nSTATEMENT\n%s\n\nQUANTIFIER\n%s\n\nWHY THE TESTS CANNOT SETTLE IT\n%s\n\nANCHORS (where the mechanism lives)\n%s\n"
                    % (r['id'], r['title'], r['statement'], r['quantifier']['text'], r['why_tests_cant'],
                       json.dumps(r['anchors'], indent=1)))
with open(d + '/ALREADY_USED.txt', 'w') as f:
    for m in sorted(glob.glob('/verif/seeded/%s_*/agent_notes.txt' % p)):
        lines = [x.strip() for x in open(m) if x.strip()]
        f.write("- " + " ".join(lines[1:3])[:400] + "\n")
PY
mkdir -p $d/seed_out
echo $d
