#!/bin/bash
# usage: tools/trymut.sh <name> '<sed-expr>' <file-relative-to-repo> <check ids...>   (env TESTS=1 also runs the repo tests)
# Applies a one-off mutation to a scratch worktree of /repo HEAD, runs the given quick checks against it, removes it.
name=$1; expr=$2; file=$3; shift 3
d=/tmp/mut_$name
git -C /repo worktree remove --force $d >/dev/null 2>&1
git -C /repo worktree add -q --detach $d HEAD || exit 2
sed -i "$expr" $d/$file
if git -C $d diff --quiet; then echo "MUTATION DID NOT APPLY"; git -C /repo worktree remove --force $d; exit 2; fi
git -C $d diff | grep '^[-+]' | grep -v '^+++\|^---' | head -6
if [ -n "$TESTS" ]; then (cd $d && /venv/bin/python -m pytest -q -p no:cacheprovider --timeout=900 -x 2>&1 | tail -1); fi
for c in "$@"; do
  out=$(cd /verif && DFOLS_REPO=$d VERIF_NO_EVIDENCE=1 VERIF_SCHEMA=0 ./check $c 2>&1); rc=$?
  echo "== $c rc=$rc: $(echo "$out" | grep -c '^VIOLATION') VIOLATION lines; $(echo "$out" | grep -E 'clause=|HARNESS' | head -2 | tr '\n' ' ' | cut -c1-300)"
done
git -C /repo worktree remove --force $d
