#!/usr/bin/env python3
"""Regenerate MANIFEST.json from the table in vf/manifest_table.py (keeps it valid at all times)."""
import json, os, sys
sys.path.insert(0, os.path.dirname(os.path.dirname(os.path.abspath(__file__))))
from vf.manifest_table import CHECKS, ENGINES, NOT_APPLICABLE, HOOKS, NOTES

ALL = ["C%02d" % i for i in range(1, 21)]
checks = []
for pid in ALL:
    if pid not in CHECKS:
        continue
    c = CHECKS[pid]
    checks.append({
        "property_id": pid,
        "quick_cmd": "./check %s --tier quick" % pid,
        "thorough_cmd": "./check %s --tier thorough" % pid,
        "evidence_file": "evidence/%s.json" % pid,
        "replay_cmd_template": "./check %s --replay {path}" % pid,
        "engine": c["engine"],
        "level_claimed": {"category": c["level"], "text": c["text"], "design_ref": "DESIGN.md section 4 " + pid},
        "level_note": c["note"],
        "technique": c["technique"],
    })
na = [{"property_id": p, "reason": NOT_APPLICABLE.get(p, "check not built yet in this session (work in progress; not a claim that the technique cannot apply)")}
      for p in ALL if p not in CHECKS]
engines = []
for e in ENGINES:
    e = dict(e)
    e["serves_properties"] = [p for p in ALL if p in CHECKS and CHECKS[p]["engine"] == e["name"]]
    engines.append(e)
m = {"version": 1, "setup_cmd": "./check --selftest", "hooks": HOOKS, "engines": engines, "checks": checks,
     "notes": NOTES, "not_applicable": na}
path = os.path.join(os.path.dirname(os.path.dirname(os.path.abspath(__file__))), "MANIFEST.json")
with open(path, "w") as f:
    json.dump(m, f, indent=1)
    f.write("\n")
print("wrote", path, "checks:", [c["property_id"] for c in checks], "n/a:", [x["property_id"] for x in na])
