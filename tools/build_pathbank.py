#!/venv/bin/python
"""tools/build_pathbank.py trsbox [N]: (re)build vf/banks/trsbox_paths.json.

A deterministic candidate stream (fixed RandomState; small-integer data so that bank members are readable) is run through
the REAL kernel on the tree under /repo with iteration-path tracing (vf/pathcov.py); a candidate is kept when it exhibits a
coverage item (iteration event, ordered pair of iteration events of one loop, hand-over between consecutive events) seen
fewer than KEEP times so far.  The result is a frozen alphabet: the check enumerates ALL of it on every run; nothing is
drawn at check time.  Rebuild only on the unchanged tree."""
import os, sys, json
sys.path.insert(0, "/verif")
os.environ.setdefault("VERIF_NPROC", "16")
from vf import common, pathcov   # noqa: E402
import numpy as np               # noqa: E402

KEEP = 2


def candidate(i):
    rs = np.random.RandomState(1000003 + i)
    n = int(rs.choice([2, 3, 3, 4, 4, 4, 5, 5, 6]))
    kind = ["indef", "indef", "indefshift", "negdef", "psd_low", "psd_full", "zero"][int(rs.randint(7))]
    A = rs.randint(-6, 7, size=(n, n)).astype(float)
    if kind == "indef":
        H = np.triu(A) + np.triu(A, 1).T
    elif kind == "indefshift":
        H = np.triu(A) + np.triu(A, 1).T - float(rs.randint(0, 5)) * np.eye(n)
    elif kind == "negdef":
        H = -(A.T.dot(A)) / 4.0 - np.eye(n)
    elif kind == "psd_low":
        r = int(rs.randint(1, n + 1))
        B = rs.randint(-3, 4, size=(r, n)).astype(float)
        H = B.T.dot(B)
    elif kind == "psd_full":
        B = rs.randint(-3, 4, size=(n + 1, n)).astype(float)
        H = B.T.dot(B)
    else:
        H = np.zeros((n, n))
    g = rs.randint(-3, 4, size=n).astype(float)
    if rs.rand() < 0.15:
        g[int(rs.randint(n))] *= 1e-3
    dl = [1.0, 1.0, 1.0, 1e-2, 1e2][int(rs.randint(5))]
    fr = [0.0, 0.25, 0.5, 0.75, 1.25, 1.5, 1.75, 3.0, None, None]
    lo = [fr[int(rs.randint(len(fr)))] for _ in range(n)]
    hi = [fr[int(rs.randint(len(fr)))] for _ in range(n)]
    xo = np.zeros(n) if rs.rand() < 0.5 else np.array(([0.1, -0.3, 0.7, 1.0 / 3.0] * 2)[:n])
    sl = np.array([xo[j] - (1e20 if lo[j] is None else lo[j] * dl) for j in range(n)])
    su = np.array([xo[j] + (1e20 if hi[j] is None else hi[j] * dl) for j in range(n)])
    sc = [1.0, 1.0, 1e-3, 1e3][int(rs.randint(4))]
    return {"explicit": True, "n": n, "xopt": xo.tolist(), "g": (g * sc).tolist(), "H": (H * sc).tolist(), "sl": sl.tolist(),
            "su": su.tolist(), "delta": dl, "Hkind": kind, "cand": i}


def work(rng):
    from dfols.trust_region import trsbox, alt_trust_step
    out = []
    with pathcov.Tracer([trsbox, alt_trust_step]) as tr:
        for i in range(*rng):
            c = candidate(i)
            a = [np.array(c[k]) for k in ("xopt", "g", "H", "sl", "su")]
            try:
                _, items = tr.run(trsbox, a[0], a[1], a[2], a[3], a[4], c["delta"])
            except Exception as e:      # a candidate that makes the kernel raise is kept: the check must look at it
                items = {"raise:" + type(e).__name__}
            out.append((i, sorted(items)))
    return out


if __name__ == "__main__":
    N = int(sys.argv[2]) if len(sys.argv) > 2 else 400000
    chunks = [(a, min(N, a + 2000)) for a in range(0, N, 2000)]
    res = {}
    for part in common.pool_map(work, chunks):
        for i, items in part:
            res[i] = items
    seen = {}
    keep = []
    for i in range(N):
        new = [it for it in res[i] if seen.get(it, 0) < KEEP]
        if new:
            keep.append(i)
            for it in res[i]:
                seen[it] = seen.get(it, 0) + 1
    bank = [candidate(i) for i in keep]
    p = "/verif/vf/banks/trsbox_paths.json"
    with open(p, "w") as f:
        json.dump({"built_from_candidates": N, "keep_per_item": KEEP, "items": len(seen), "source_sha": pathcov.source_sha(),
                   "cases": bank}, f)
    kinds = {}
    for t in seen:
        kinds[t[0]] = kinds.get(t[0], 0) + 1
    print("candidates %d -> bank %d cases; %d coverage items %s" % (N, len(bank), len(seen), kinds))
