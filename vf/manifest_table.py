"""Source of truth for MANIFEST.json (run tools/gen_manifest.py after editing)."""

HOOKS = {
    "guard": "DFOLS_VERIF",
    "enable": "no source hooks are needed: all observation is done from the harness by wrapping callables the library "
              "looks up at call time (DESIGN.md 3.1); the guard name is reserved for the fallback callback described there",
    "baseline_off_cmd": "cd /repo && /venv/bin/python -m pytest -ra -q -p no:cacheprovider --timeout=900 "
                        "--continue-on-collection-errors",
    "source_commits": [],
    "add_only": True,
}

ENGINES = [
    {"name": "solvex", "path": "vf/solvex.py",
     "kind_free_text": "stateless deviation-bounded explorer of dfols.solve under an owned environment (objective "
                       "answers, nsamples callback, RNG draws and the package's declared linear-algebra failures are choice "
                       "points); written for this task"},
    {"name": "modelx", "path": "vf/modelx.py",
     "kind_free_text": "explicit-state breadth-first search over the public operations of dfols.model.Model with a "
                       "shadow reference model; canonicalised state de-duplication"},
    {"name": "gridx", "path": "vf/gridx.py",
     "kind_free_text": "exhaustive enumeration of finite input-shape alphabets for the numerical kernels against exact "
                       "small-dimension oracles"},
]

NOTES = ("Every solve-level (solvex) check also runs its monitors over the broad option bank (vf/cfgs.py: every documented "
         "user parameter at a non-default value inside its feature, pairwise overlays with averaging and soft restarts, "
         "the smallest and largest accepted value of every numeric parameter) and must reach every call site of "
         "Controller.evaluate_objective found in the tree's AST, or name the site as exempt with a reason "
         "(coverage.evaluation_sites in the evidence). All checks execute the implementation in /repo directly (sys.path[0]=/repo, fresh import per process); "
         "The declared linear-algebra failure (LinAlgError out of Model.solve_geom_system inside the package's own try blocks) is a "
         "fourth kind of choice point: every such call answered 'singular' once, in 15 restart/feature modes (C01-C04, C09-C11, "
         "C18, C20). exit 0 = held on everything explored, 1 = VIOLATION lines, 2 = harness error. VERIF_SEED selects one of 8 "
         "pre-validated data salts; thorough runs all 8.")

NOT_APPLICABLE = {}

CHECKS = {
    "C02": {
        "engine": "solvex", "level": "exploration",
        "text": "every budget maxfun=1..K for every (problem, nsamples callback, restart mode, noise mode) of the "
                "alphabet is executed on the real solver; the harness's call counter and the solver's own evaluation/"
                "point labels are compared exactly, so an off-by-one at any of the budget tests is reached",
        "note": "trusts the recording wrapper and the keyword arguments of the evaluation seam (cross-checked against "
                "the log records); n<=3, K=2*initialisation cost+25..45",
        "technique": "bounded exhaustive exploration of the implementation (all budgets x configuration alphabet), "
                     "exact counter oracle",
    },
    "C01": {
        "engine": "solvex", "level": "exploration",
        "text": "every per-coordinate (bound pattern x x0 placement) combination x scaling x 11 solver modes x 2-3 functions is "
                "executed on the real solver and every argument received by the objective is compared exactly with the "
                "bounds; a component layer drives a controller built by the real solve() through all base-shift histories "
                "of length <=2 (thorough 3) and probes every step within +-4 ulp of each shifted bound",
        "note": "n<=2 quick / n<=3 thorough; bound values from a fixed bank of non-representable endpoints; maxfun<=70; "
                "trusts the recording wrapper",
        "technique": "bounded exhaustive exploration of the implementation over a structural input alphabet (+ single "
                     "answer deviations in thorough), exact comparison oracle",
    },
    "C03": {
        "engine": "solvex", "level": "exploration",
        "text": "all executions of solve within one (thorough: two) departure(s) from the true objective answers, at every "
                "evaluation index, over 23 modes x 7 budgets x 2 starts; the result and - at the top of every iteration - "
                "every interpolation point and the saved point of the live model are compared with the recorded calls "
                "grouped by the solver's own point numbers",
        "note": "n=2; answer alphabet {x0,best,x0.3,tie,x3,nan}; positions compared to 1e-12 relative; per-iteration view "
                "obtained by wrapping Model.interpolate_mini_models_svd from the harness",
        "technique": "stateless deviation-bounded model checking of the implementation (environment answers as choice "
                     "points), recorded-call oracle",
    },
    "C04": {
        "engine": "solvex", "level": "exploration",
        "text": "all executions within one (thorough: two) answer deviation(s) under a memoised (deterministic) environment "
                "over 18 modes incl. convex sets with simultaneously active constraints and the documented box-ball example; "
                "soln.obj and the live min(incumbent, saved) are compared with the minimum over all recorded evaluations",
        "note": "n=2; values recomputed with the same dot product; 1e-13 relative slack; vacuity floor requires a deviated "
                "best value at the model-increase, budget, rhoend and small-objective exits",
        "technique": "stateless deviation-bounded model checking of the implementation, min-over-history oracle",
    },
    "C08": {
        "engine": "solvex", "level": "fault_enumeration",
        "text": "for 12 configurations x 2 functions every evaluation index of the reference run x 7 fault kinds is executed "
                "(plus all-calls-faulty runs; a fault at the LAST evaluation the budget allows for every budget 1..48 in 9 modes, "
                "incl. a non-memoised hard-restart mode in which the re-evaluation of the incumbent can be the faulty one; "
                "thorough: all fault pairs on three configurations); outcome compared with the "
                "recorded calls before/after the fault, with the exact bounds and budget monitors left on",
        "note": "fault kinds: NaN, +/-inf, 1e200 (whole vector or one component), raised exception; n=2; maxfun=40",
        "technique": "exhaustive single-fault (thorough: double-fault) injection at every evaluation index on the real code",
    },
    "C05": {
        "engine": "gridx", "level": "exploration",
        "text": "all 5^n per-coordinate box patterns relative to the unconstrained minimiser x shapes (incl. m<n) x conditioning "
                "x x0 placement x scaling x npt are solved with the default budget and compared with the exact constrained "
                "minimum obtained by enumerating all active sets (cross-checked against lsq_linear)",
        "note": "continuous quantifier covered over a fixed data bank only (prescribed singular values, 8 salts); n<=4, m<=6",
        "technique": "exhaustive enumeration of the active-set pattern alphabet on the real solver, exact small-n oracle",
    },
    "C06": {
        "engine": "gridx", "level": "exploration",
        "text": "shape x lambda decades (+ lambda = 0.7, 1.5, 4 x ||2A'b||_inf started from the least-squares solution) x "
                "{L1, L2-norm} x box pattern x x0 x calling convention (closures / distinguishable argsh+argsprox) x "
                "scaling rows, compared with the exact regularised optimum (enumeration of sign/active patterns for L1; "
                "accelerated proximal gradient + SLSQP for the L2 norm, cross-checked on L1); extra arguments recorded on "
                "every call of h and prox",
        "note": "fixed well-conditioned data bank; n<=3 quick / 4 thorough; regulariser+scaling_within_bounds is a recorded "
                "known finding (listed as a limitation in the property text)",
        "technique": "exhaustive enumeration of a configuration alphabet on the real solver, exact KKT-enumeration oracle",
    },
    "C07": {
        "engine": "gridx", "level": "exploration",
        "text": "every parameter key x value class (default, boundaries, just outside, wrong types), all ordered pairs of "
                "invalid values on 12 keys, all single and compatible paired faults of the solve arguments x scaling x "
                "projections, unknown keys, audit of the documented EXIT_* constants, and complete runs for every budget "
                "1..80 in five configurations that reach the rare exit sites; validity judged by an independent table "
                "written from docs/advanced.rst",
        "note": "ambiguous values (None, int-for-float, bool-for-int, boundary 0/1 of ratios) may be accepted or rejected but "
                "must never raise; projections with npt != n+1 / reduced initial set is a recorded known finding",
        "technique": "exhaustive enumeration of the input-validity alphabet (singles and pairs) on the real entry point",
    },
    "C09": {
        "engine": "solvex", "level": "exploration",
        "text": "all subsets (size<=3) of a bank of six convex sets x three bound settings x six starting points (incl. "
                "infeasible by 1e-7) x restart modes x functions, the same geometry translated far from the origin, feature "
                "rows that select every evaluation site that exists under projections (incl. a 'pull' objective whose solution sits where a box face crosses a curved boundary); "
                "every evaluated point is matched by its bytes against the outputs of the wrapped projection routine and "
                "checked against the sqrt(p*tol) bound / exact box",
        "note": "n=2 quick, n<=3 thorough; a projection call with sweeps == max_iter counts as 'hit the cap'",
        "technique": "bounded exhaustive exploration of the implementation over a constraint-geometry alphabet; distance-"
                     "function oracle on every evaluation",
    },
    "C10": {
        "engine": "solvex", "level": "exploration",
        "text": "problem x abs_tol x maxfun x rhoend x restart mode x max_unsuccessful_restarts (incl. 0) x rhoend_scale, all "
                "single answer deviations on a sub-grid (pairs in thorough) and all-evaluations-faulty runs; each message is "
                "checked against the numerical fact it claims (recorded calls, live rho, restarts counted through wrappers)",
        "note": "n=2; restarts counted via wrapped soft_restart / solve_main",
        "technique": "stateless deviation-bounded model checking of the implementation, clause-by-clause exit predicates",
    },
    "C11": {
        "engine": "solvex", "level": "exploration",
        "text": "function x npt in [n+1,2n+1] x bounds/scaling x EVERY budget from npt to npt+30 (+3 large) x five restart modes "
                "(+ averaging rows; single deviations in thorough); soln.jacobian compared with an independent lstsq fit "
                "through the recorded calls named by jacmin_eval_nums, and with A for linear residuals",
        "note": "tolerance 1e-8*cond(W); n<=3",
        "technique": "bounded exhaustive exploration (all budgets x configuration alphabet), independent-fit oracle",
    },
    "C12": {
        "engine": "gridx", "level": "exploration",
        "text": "g letters^n x scale x 7 Hessian families x delta decades x ALL 5^n bound patterns x two current points, n<=3 "
                "(4 thorough): exact box feasibility, ball, no model increase, Cauchy decrease (independent Cauchy point), "
                "returned gradient; plus a frozen bank of 1447 explicit instances (n=2..6, indefinite / negative definite / "
                "low-rank H) selected from a deterministic candidate stream so that every iteration event and every ordered "
                "pair of iteration events of the CG and boundary loops seen among 300000 candidates is exhibited at least "
                "twice (vf/pathcov.py; the evidence reports the path items covered on the tree under test)",
        "note": "Python kernels only (Fortran trustregion package not installed); property quantifies to n=8; the path bank "
                "is an alphabet chosen by coverage, enumerated in full on every run - nothing is drawn at check time",
        "technique": "exhaustive enumeration of an input-shape alphabet on the real kernel, exact oracles",
    },
    "C13": {
        "engine": "gridx", "level": "exploration",
        "text": "(a) box geometry solver over c x g^n x Delta x all 5^n patterns (incl. degenerate) against the global maximum "
                "found on the clipped ray by bisection; (b) ctrsbox_pgd / ctrsbox_geometry / ctrsbox_sfista over a bank of 8 "
                "set geometries (three defined relative to Delta) and over ALL pairs of constraints from a family of 24 normals "
                "x 3 offsets of half-spaces + 4 off-centre balls cutting the trust region; (c) Controller.trust_region_step on controllers built by "
                "the real solve() with L1/L2 regularisers and perturbed models: predicted reduction never negative",
        "note": "n<=3 (a), n=2 (b,c)",
        "technique": "exhaustive enumeration of input-shape alphabets on the real kernels, exact (KKT) oracle for (a)",
    },
    "C14": {
        "engine": "gridx", "level": "exploration",
        "text": "(a) every per-coordinate placement of x0 (12 letters)^n x rhobeg x gap x npt, n<=3, solve run with maxfun=npt; "
                "(b) both direction generators over all active-set patterns {lower==0, upper==0, tight, active-and-narrow (both sides), far}^n, n<=4 x "
                "requested counts x six RNG answer menus",
        "note": "RNG owned by the harness; the 2*delta 'extra directions for active constraints' of the orthogonal generator "
                "are a recorded known finding",
        "technique": "exhaustive enumeration of placement / active-set alphabets on the real code, geometric predicates",
    },
    "C15": {
        "engine": "gridx", "level": "exploration",
        "text": "every ordered selection of <=3 (thorough 4) sets from a bank of 9 x 4 starts x 4 tolerances x sweep caps x n; "
                "sweeps counted through wrapped projectors; true projection computed independently and certified by a KKT / "
                "NNLS check before it is used",
        "note": "near-optimality asserted for tol<=1e-8 only (DESIGN.md 4 C15 explains why a looser tolerance cannot promise it)",
        "technique": "exhaustive enumeration of ordered set selections on the real routine, certified-reference oracle",
    },
    "C16": {
        "engine": "modelx", "level": "model_checking",
        "text": "breadth-first search over histories of {replace, append, shift base, re-fit} on the real Model (depth 4-6), "
                "states de-duplicated on the bytes of all mutable attributes; in every state the fit identities are "
                "evaluated on a copy and every shift transition is checked for invariance",
        "note": "n<=3, m<=3, dyadic point alphabet, base points up to 2^20; tolerance 1e3*eps*cond(W)*scale",
        "technique": "explicit-state model checking of the implementation (every transition is a real method call)",
    },
    "C17": {
        "engine": "modelx", "level": "model_checking",
        "text": "breadth-first search (depth 3, 4 on reduced alphabets) over histories of all six update operations with "
                "incumbent-relative residual letters (better/worse/tie/sign-flipped tie/NaN/inf), with and without a "
                "regulariser; every transition is compared with a shadow model and the final-result query is evaluated in "
                "every state",
        "note": "n=2, m=2, npt 3..5; non-finite values rank equal in the oracle (the property only prefers finite over NaN)",
        "technique": "explicit-state model checking of the implementation against a reference (shadow) model",
    },
    "C18": {
        "engine": "solvex", "level": "exploration",
        "text": "16 modes x bounds x budgets x problems with the diagnostic table on, all single answer deviations on a sub-grid "
                "(pairs in thorough); row-wise and time-series predicates on soln.diagnostic_info; columns parsed from "
                "docs/diagnostic.rst; one row per iteration verified against a wrapped recorder",
        "note": "n<=3; coverage of the radius-update sites reported by iteration type",
        "technique": "stateless deviation-bounded model checking of the implementation, time-series invariants",
    },
    "C19": {
        "engine": "gridx", "level": "exploration",
        "text": "per configuration (default, bounded, scaled, infeasible x0, every convex-set subset, regression, regularised, "
                "restarts, averaging): owned-RNG run, repeat, EVERY single RNG-answer deviation, two differently seeded runs "
                "under the real generator, fresh-process comparison; caller-side copies of x0, bounds, user_params compared",
        "note": "np.random.normal/randint/seed owned; other entry points covered by the differently seeded real runs",
        "technique": "exhaustive enumeration of RNG answers as choice points on the real solver, bit-equality oracle",
    },
    "C20": {
        "engine": "solvex", "level": "exploration",
        "text": "every result object of an exploration over 14 modes x budgets x single answer deviations (all exit flags other "
                "than input error), sizes beyond the printing thresholds, all-NaN/inf runs, plus the Cartesian product of "
                "{flag} x {None, NaN, array} per optional field for synthetic results; field-by-field comparison after a "
                "strict JSON round trip and of str()",
        "note": "results containing +-inf are outside the strict-JSON clause (they cannot be reproduced exactly through strict "
                "JSON); save_xk / save_rk tables are recorded known findings",
        "technique": "stateless deviation-bounded exploration to generate the result corpus + exhaustive synthetic enumeration",
    },
}
