"""Source of truth for MANIFEST.json (run tools/gen_manifest.py after editing)."""

HOOKS = {
    "guard": "DFOLS_VERIF",
    "enable": "no source hooks are needed: all observation is done from the harness by wrapping callables the library "
              "looks up at call time (DESIGN.md 3.1); the guard name is reserved for the fallback callback described there",
    "baseline_off_cmd": "cd /repo && /venv/bin/python -m pytest -ra -q -p no:cacheprovider --timeout=900 "
                        "--continue-on-collection-errors",
    "source_commits": [],
    "add_only": True,
}

ENGINES = [
    {"name": "solvex", "path": "vf/solvex.py",
     "kind_free_text": "stateless deviation-bounded explorer of dfols.solve under an owned environment (objective "
                       "answers, nsamples callback and RNG draws are choice points); written for this task"},
    {"name": "modelx", "path": "vf/modelx.py",
     "kind_free_text": "explicit-state breadth-first search over the public operations of dfols.model.Model with a "
                       "shadow reference model; canonicalised state de-duplication"},
    {"name": "gridx", "path": "vf/gridx.py",
     "kind_free_text": "exhaustive enumeration of finite input-shape alphabets for the numerical kernels against exact "
                       "small-dimension oracles"},
]

NOTES = ("All checks execute the implementation in /repo directly (sys.path[0]=/repo, fresh import per process); "
         "exit 0 = held on everything explored, 1 = VIOLATION lines, 2 = harness error. VERIF_SEED selects one of 8 "
         "pre-validated data salts; thorough runs all 8.")

NOT_APPLICABLE = {}

CHECKS = {
    "C02": {
        "engine": "solvex", "level": "exploration",
        "text": "every budget maxfun=1..K for every (problem, nsamples callback, restart mode, noise mode) of the "
                "alphabet is executed on the real solver; the harness's call counter and the solver's own evaluation/"
                "point labels are compared exactly, so an off-by-one at any of the budget tests is reached",
        "note": "trusts the recording wrapper and the keyword arguments of the evaluation seam (cross-checked against "
                "the log records); n<=3, K=2*initialisation cost+25..45",
        "technique": "bounded exhaustive exploration of the implementation (all budgets x configuration alphabet), "
                     "exact counter oracle",
    },
}
