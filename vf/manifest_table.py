"""Source of truth for MANIFEST.json (run tools/gen_manifest.py after editing)."""

HOOKS = {
    "guard": "DFOLS_VERIF",
    "enable": "no source hooks are needed: all observation is done from the harness by wrapping callables the library "
              "looks up at call time (DESIGN.md 3.1); the guard name is reserved for the fallback callback described there",
    "baseline_off_cmd": "cd /repo && /venv/bin/python -m pytest -ra -q -p no:cacheprovider --timeout=900 "
                        "--continue-on-collection-errors",
    "source_commits": [],
    "add_only": True,
}

ENGINES = [
    {"name": "solvex", "path": "vf/solvex.py",
     "kind_free_text": "stateless deviation-bounded explorer of dfols.solve under an owned environment (objective "
                       "answers, nsamples callback and RNG draws are choice points); written for this task"},
    {"name": "modelx", "path": "vf/modelx.py",
     "kind_free_text": "explicit-state breadth-first search over the public operations of dfols.model.Model with a "
                       "shadow reference model; canonicalised state de-duplication"},
    {"name": "gridx", "path": "vf/gridx.py",
     "kind_free_text": "exhaustive enumeration of finite input-shape alphabets for the numerical kernels against exact "
                       "small-dimension oracles"},
]

NOTES = ("All checks execute the implementation in /repo directly (sys.path[0]=/repo, fresh import per process); "
         "exit 0 = held on everything explored, 1 = VIOLATION lines, 2 = harness error. VERIF_SEED selects one of 8 "
         "pre-validated data salts; thorough runs all 8.")

NOT_APPLICABLE = {}

CHECKS = {
    "C02": {
        "engine": "solvex", "level": "exploration",
        "text": "every budget maxfun=1..K for every (problem, nsamples callback, restart mode, noise mode) of the "
                "alphabet is executed on the real solver; the harness's call counter and the solver's own evaluation/"
                "point labels are compared exactly, so an off-by-one at any of the budget tests is reached",
        "note": "trusts the recording wrapper and the keyword arguments of the evaluation seam (cross-checked against "
                "the log records); n<=3, K=2*initialisation cost+25..45",
        "technique": "bounded exhaustive exploration of the implementation (all budgets x configuration alphabet), "
                     "exact counter oracle",
    },
    "C01": {
        "engine": "solvex", "level": "exploration",
        "text": "every per-coordinate (bound pattern x x0 placement) combination x scaling x 11 solver modes x 2-3 functions is "
                "executed on the real solver and every argument received by the objective is compared exactly with the "
                "bounds; a component layer drives a controller built by the real solve() through all base-shift histories "
                "of length <=2 (thorough 3) and probes every step within +-4 ulp of each shifted bound",
        "note": "n<=2 quick / n<=3 thorough; bound values from a fixed bank of non-representable endpoints; maxfun<=70; "
                "trusts the recording wrapper",
        "technique": "bounded exhaustive exploration of the implementation over a structural input alphabet (+ single "
                     "answer deviations in thorough), exact comparison oracle",
    },
    "C03": {
        "engine": "solvex", "level": "exploration",
        "text": "all executions of solve within one (thorough: two) departure(s) from the true objective answers, at every "
                "evaluation index, over 23 modes x 7 budgets x 2 starts; the result and - at the top of every iteration - "
                "every interpolation point and the saved point of the live model are compared with the recorded calls "
                "grouped by the solver's own point numbers",
        "note": "n=2; answer alphabet {x0,best,x0.3,tie,x3,nan}; positions compared to 1e-12 relative; per-iteration view "
                "obtained by wrapping Model.interpolate_mini_models_svd from the harness",
        "technique": "stateless deviation-bounded model checking of the implementation (environment answers as choice "
                     "points), recorded-call oracle",
    },
    "C04": {
        "engine": "solvex", "level": "exploration",
        "text": "all executions within one (thorough: two) answer deviation(s) under a memoised (deterministic) environment "
                "over 18 modes incl. convex sets with simultaneously active constraints and the documented box-ball example; "
                "soln.obj and the live min(incumbent, saved) are compared with the minimum over all recorded evaluations",
        "note": "n=2; values recomputed with the same dot product; 1e-13 relative slack; vacuity floor requires a deviated "
                "best value at the model-increase, budget, rhoend and small-objective exits",
        "technique": "stateless deviation-bounded model checking of the implementation, min-over-history oracle",
    },
    "C08": {
        "engine": "solvex", "level": "fault_enumeration",
        "text": "for 12 configurations x 2 functions every evaluation index of the reference run x 7 fault kinds is executed "
                "(plus all-calls-faulty runs; thorough: all fault pairs on three configurations); outcome compared with the "
                "recorded calls before/after the fault, with the exact bounds and budget monitors left on",
        "note": "fault kinds: NaN, +/-inf, 1e200 (whole vector or one component), raised exception; n=2; maxfun=40",
        "technique": "exhaustive single-fault (thorough: double-fault) injection at every evaluation index on the real code",
    },
}
