"""setup_cmd: offline self-test of the machinery (nothing is fetched or compiled)."""
import os
import numpy as np

from . import common, solvex, cfgs, bank


def run():
    import dfols
    print("dfols imported from", dfols.__file__)
    # 1. engine determinism: the same execution twice gives the same fingerprint
    cfg = cfgs.base_cfg("rosen", maxfun=30, rhobeg=0.3, rhoend=0.05)
    a = solvex.Execution(cfg).run()
    b = solvex.Execution(cfg).run()
    assert a.fingerprint() == b.fingerprint(), "engine is not deterministic"
    assert a.calls and a.calls[0]["eval_num"] == 1, "evaluation seam wrapper not active"
    # 2. set bank: projections are idempotent and land in the set
    for spec in ({"t": "ball", "c": [0.1, 0.2], "r": 0.7}, {"t": "half", "a": [1.0, 2.0], "b": 0.3},
                 {"t": "box", "l": [-1, -2], "u": [0.5, 0.1]}):
        s = bank.CSet(spec)
        p = s.proj(np.array([3.0, -4.0]))
        assert s.dist(p) < 1e-12 and np.allclose(s.proj(p), p)
    # 3. property modules import
    n = 0
    for f in sorted(os.listdir(os.path.join(os.path.dirname(__file__), "props"))):
        if f.startswith("C") and f.endswith(".py"):
            __import__("vf.props." + f[:-3])
            n += 1
    print("selftest ok (%d property modules)" % n)
    return 0
