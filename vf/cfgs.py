"""Configuration alphabets shared by the E1 property modules."""

RESTART_MODES = {
    "none": {},
    "soft": {"restarts.use_restarts": True},
    "soft_inc": {"restarts.use_restarts": True, "restarts.increase_npt": True, "restarts.max_npt_plus": 2},
    "soft_nomove": {"restarts.use_restarts": True, "restarts.soft.move_xk": False},
    "hard_old": {"restarts.use_restarts": True, "restarts.use_soft_restarts": False},
    "hard_new": {"restarts.use_restarts": True, "restarts.use_soft_restarts": False,
                 "restarts.hard.use_old_rk": False},
    "hard_inc": {"restarts.use_restarts": True, "restarts.use_soft_restarts": False, "restarts.increase_npt": True,
                 "restarts.max_npt_plus": 2},
}

NOISE_MODES = {
    "off": ({}, False),
    "has_noise": ({}, True),
    "additive": ({"noise.quit_on_noise_level": True, "noise.additive_noise_level": 10.0}, False),
}

X0 = {"rosen": [-1.2, 1.0], "nzr": [-1.2, 1.0], "one": [2.0], "rosen3": [-1.2, 1.0, 0.5], "nzr3": [0.5, -0.5, 1.0],
      "inv": [0.5, -0.5, 1.0]}
DIM = {"rosen": 2, "nzr": 2, "one": 1, "rosen3": 3, "nzr3": 3, "inv": 3}


def user_params(npt, *dicts):
    """Merge parameter dicts; the pseudo key restarts.max_npt_plus is resolved against npt."""
    up = {}
    for d in dicts:
        up.update(d)
    if "restarts.max_npt_plus" in up:
        up["restarts.max_npt"] = npt + up.pop("restarts.max_npt_plus")
    return up


def base_cfg(prob, salt=0, **kw):
    cfg = {"prob": {"f": prob, "salt": salt}, "x0": list(X0[prob]), "memo": True}
    cfg.update(kw)
    return cfg


# ------------------------------------------------------------------------------------------------------------------
# Broad option bank: every documented user parameter appears at a non-default value in at least one mode (several
# in combination with the feature it belongs to).  The E1 property modules run their monitors over this bank in
# addition to their own, more deeply explored, alphabets - so that a code path selected by an option nobody thought
# of for that particular property is still visited.
#   flags: random (documented as using random directions), noisy (answers depend on the call index), avg (sample
#          averaging), sets (projections), reg (regulariser; slow), regfast (regulariser, capped subproblem
#          solver), n3 (three variables)
# ------------------------------------------------------------------------------------------------------------------
_BOX2 = {"lo": [-1.5, -0.5], "hi": [0.9, 1.7]}
_SETS2 = [{"t": "ball", "c": [0.0, 0.5], "r": 1.6}, {"t": "half", "a": [1.0, 1.0], "b": 1.6}]
_R = {"restarts.use_restarts": True}
_H = {"restarts.use_restarts": True, "restarts.use_soft_restarts": False}
_G = {"growing.ndirs_initial": 1}
_F = {"func_tol.max_iters": 10}

BROAD_MODES = {
    # initialisation
    "init_random": ({"up": {"init.random_initial_directions": True}}, {"random"}),
    "init_random_nonorthog": ({"up": {"init.random_initial_directions": True, "init.random_directions_make_orthogonal": False}}, {"random"}),
    "init_random_parallel": ({"up": {"init.random_initial_directions": True, "init.run_in_parallel": True}, "npt": 5}, {"random"}),
    # all initial points are evaluated before any is looked at: with a user tolerance that an initial point already meets, the points
    # evaluated after it must not be lost (finding 38)
    "init_random_parallel_abstol": ({"up": {"init.random_initial_directions": True, "init.run_in_parallel": True, "model.abs_tol": 20.0}, "npt": 5}, {"random"}),
    "init_random_parallel_abstol_avg": ({"up": {"init.random_initial_directions": True, "init.run_in_parallel": True, "model.abs_tol": 20.0}, "npt": 5,
                                         "nsamples": "const2", "noise_amp": 0.02, "memo": False}, {"random", "noisy", "avg"}),
    "init_random_bounds_npt6": (dict(_BOX2, up={"init.random_initial_directions": True}, npt=6, x0=[0.9, -0.5]), {"random"}),
    # growing phase
    "grow": ({"up": dict(_G)}, {"random"}),
    "grow_newdirs": ({"up": dict(_G, **{"growing.num_new_dirns_each_iter": 1, "growing.do_geom_steps": True})}, {"random"}),
    "grow_reduce_delta": ({"up": dict(_G, **{"growing.safety.reduce_delta": True})}, {"random"}),
    "grow_full_geom": ({"up": dict(_G, **{"growing.safety.full_geom_step": True})}, {"random"}),
    "grow_no_safety": ({"up": dict(_G, **{"growing.safety.do_safety_step": False})}, {"random"}),
    "grow_perturb": ({"up": dict(_G, **{"growing.perturb_trust_region_step": True, "growing.full_rank.use_full_rank_interp": False,
                                        "growing.delta_scale_new_dirns": 0.5})}, {"random"}),
    "grow_reset": ({"up": dict(_G, **{"growing.reset_delta": True, "growing.reset_rho": True, "growing.gamma_dec": 0.8})}, {"random"}),
    "grow_fullrank_params": ({"up": dict(_G, **{"growing.full_rank.min_sing_val": 1e-3, "growing.full_rank.svd_scale_factor": 0.5,
                                                "growing.full_rank.svd_max_jac_cond": 1e4, "growing.full_rank.scale_factor": 1e-1})}, {"random"}),
    "grow_bounds": (dict(_BOX2, up=dict(_G), x0=[0.9, 1.7]), {"random"}),
    "grow_n3": ({"up": {"growing.ndirs_initial": 2}, "prob": "nzr3"}, {"random", "n3"}),
    # the geometry fix inside a growing-phase safety step is only reachable when new directions are long (> 10 rho)
    "grow_full_geom_far_dirns": ({"up": {"growing.ndirs_initial": 1, "growing.safety.full_geom_step": True, "general.safety_step_thresh": 5.0,
                                         "growing.delta_scale_new_dirns": 20.0}, "prob": "nzr3"}, {"random", "n3"}),
    "grow_full_geom_far_dirns_bounds": ({"up": {"growing.ndirs_initial": 1, "growing.safety.full_geom_step": True,
                                                "general.safety_step_thresh": 5.0, "growing.delta_scale_new_dirns": 20.0},
                                         "prob": "rosen3", "lo": [-1.5, -0.5, -1.0], "hi": [0.9, 1.7, 0.8]}, {"random", "n3"}),
    # the radius reduction inside a growing-phase safety step (growing.safety.reduce_delta) only acts when some point is
    # further than 10 rho from the incumbent: long new directions again
    "grow_reduce_delta_far_dirns": ({"up": {"growing.ndirs_initial": 1, "growing.safety.reduce_delta": True, "general.safety_step_thresh": 5.0,
                                            "growing.delta_scale_new_dirns": 20.0}, "prob": "nzr3"}, {"random", "n3"}),
    "grow_inverse": ({"up": {"growing.ndirs_initial": 1}, "prob": "inv"}, {"random", "n3"}),
    # regression
    "reg_npt5_extra1": ({"npt": 5, "up": {"regression.num_extra_steps": 1}}, set()),
    "reg_npt6_extra2": ({"npt": 6, "up": {"regression.num_extra_steps": 2}}, set()),
    "reg_momentum": ({"npt": 5, "up": {"regression.num_extra_steps": 2, "regression.momentum_extra_steps": True}}, {"random"}),
    "reg_momentum_bounds": (dict(_BOX2, npt=5, up={"regression.num_extra_steps": 1, "regression.momentum_extra_steps": True}), {"random"}),
    "reg_increase_with_restart": ({"npt": 5, "up": dict(_R, **{"regression.num_extra_steps": 1, "regression.increase_num_extra_steps_with_restart": 1})}, set()),
    # restarts
    "soft_geom1": ({"up": dict(_R, **{"restarts.soft.num_geom_steps": 1})}, set()),
    "soft_geom5_nomove": ({"npt": 5, "up": dict(_R, **{"restarts.soft.num_geom_steps": 5, "restarts.soft.move_xk": False})}, set()),
    "soft_fake1": ({"up": dict(_R, **{"restarts.soft.max_fake_successful_steps": 1})}, set()),
    "soft_inc_amt2": ({"up": dict(_R, **{"restarts.increase_npt": True, "restarts.increase_npt_amt": 2, "restarts.max_npt_plus": 3})}, {"random"}),
    "soft_scale_mu1": ({"up": dict(_R, **{"restarts.rhoend_scale": 0.5, "restarts.max_unsuccessful_restarts": 1})}, set()),
    "soft_noautodetect": ({"up": dict(_R, **{"restarts.auto_detect": False})}, set()),
    "soft_bounds_scaling": (dict(_BOX2, scaling=True, up=dict(_R)), set()),
    "hard_new_scale": ({"up": dict(_H, **{"restarts.hard.use_old_rk": False, "restarts.rhoend_scale": 0.5})}, set()),
    "hard_inc_amt2_ndirs2": ({"up": dict(_H, **{"restarts.increase_npt": True, "restarts.increase_npt_amt": 2, "restarts.max_npt_plus": 3,
                                                "restarts.hard.increase_ndirs_initial_amt": 2})}, set()),
    "hard_inc_amt1_ndirs0": ({"up": dict(_H, **{"restarts.increase_npt": True, "restarts.max_npt_plus": 2,
                                                "restarts.hard.increase_ndirs_initial_amt": 0})}, {"random"}),
    "hard_mu1_bounds": (dict(_BOX2, up=dict(_H, **{"restarts.max_unsuccessful_restarts": 1})), set()),
    # restarts.max_npt has no documented upper limit: beyond (n+1)(n+2)/2 a hard restart cannot initialise a run (finding 34)
    "hard_inc_max_npt_large": ({"npt": 5, "up": dict(_H, **{"restarts.increase_npt": True, "restarts.max_npt_plus": 4})}, set()),
    "soft_inc_max_npt_large": ({"npt": 5, "up": dict(_R, **{"restarts.increase_npt": True, "restarts.max_npt_plus": 4})}, {"random"}),
    "hard_autodetect_short": ({"up": dict(_H, **{"restarts.auto_detect.history": 3, "restarts.auto_detect.min_chgJ_slope": 0.0,
                                                 "restarts.auto_detect.min_correl": 0.0}), "noise_amp": 0.3, "memo": False,
                               "objfun_has_noise": True}, {"noisy"}),
    # noise handling
    "noise_flag": ({"objfun_has_noise": True, "noise_amp": 0.05, "memo": False}, {"noisy"}),
    "noise_additive": ({"up": {"noise.quit_on_noise_level": True, "noise.additive_noise_level": 0.5, "noise.scale_factor_for_quit": 2.0},
                        "noise_amp": 0.05, "memo": False}, {"noisy"}),
    "noise_multiplicative": ({"up": {"noise.quit_on_noise_level": True, "noise.multiplicative_noise_level": 0.1}, "noise_amp": 0.05,
                              "memo": False}, {"noisy"}),
    "noise_additive_soft": ({"up": dict(_R, **{"noise.quit_on_noise_level": True, "noise.additive_noise_level": 0.5}), "noise_amp": 0.05,
                             "memo": False}, {"noisy"}),
    # averaging
    "avg_const3": ({"nsamples": "const3", "noise_amp": 0.02, "memo": False}, {"noisy", "avg"}),
    "avg_iter_soft": ({"nsamples": "iter%3+1", "noise_amp": 0.02, "memo": False, "up": dict(_R)}, {"noisy", "avg"}),
    "avg_nruns_hard_new": ({"nsamples": "nruns+1", "noise_amp": 0.02, "memo": False, "up": dict(_H, **{"restarts.hard.use_old_rk": False})}, {"noisy", "avg"}),
    "avg_const2_regression_bounds": (dict(_BOX2, nsamples="const2", noise_amp=0.02, memo=False, npt=5, up={"regression.num_extra_steps": 1}), {"noisy", "avg"}),
    # trust-region management
    "tr_etas": ({"up": {"tr_radius.eta1": 0.3, "tr_radius.eta2": 0.9}}, set()),
    "tr_gammas": ({"up": {"tr_radius.gamma_dec": 0.25, "tr_radius.gamma_inc": 1.5, "tr_radius.gamma_inc_overline": 8.0}}, set()),
    "tr_alphas": ({"up": {"tr_radius.alpha1": 0.5, "tr_radius.alpha2": 0.9}}, set()),
    "tr_slow_gamma": ({"up": {"tr_radius.gamma_dec": 0.98, "tr_radius.alpha1": 0.9, "tr_radius.alpha2": 0.95}}, set()),
    "general_shift_often": ({"up": {"general.rounding_error_constant": 10.0}, "x0": [50.0, -30.0]}, set()),
    "general_shift_never": ({"up": {"general.rounding_error_constant": 1e-6}, "x0": [50.0, -30.0]}, set()),
    "general_safety_thresh": ({"up": {"general.safety_step_thresh": 0.9}}, set()),
    "general_no_overflow_check": ({"up": {"general.check_objfun_for_overflow": False}}, set()),
    # termination
    "tol_abs": ({"up": {"model.abs_tol": 1e-2}}, set()),
    "tol_rel": ({"up": {"model.rel_tol": 1e-3}}, set()),
    "slow_exit": ({"up": {"slow.history_for_slow": 2, "slow.thresh_for_slow": 1.0, "slow.max_slow_iters": 2}}, set()),
    "slow_exit_soft": ({"up": dict(_R, **{"slow.history_for_slow": 1, "slow.thresh_for_slow": 10.0, "slow.max_slow_iters": 1})}, set()),
    # interpolation / logging
    "no_precondition": ({"up": {"interpolation.precondition": False}, "x0": [50.0, -30.0]}, set()),
    "throw_on_nans": ({"up": {"interpolation.throw_error_on_nans": True}}, set()),
    "diag": ({"up": {"logging.save_diagnostic_info": True}}, set()),
    "diag_nopoised_soft": ({"up": dict(_R, **{"logging.save_diagnostic_info": True, "logging.save_poisedness": False})}, set()),
    "log_whole_x": ({"up": {"logging.n_to_print_whole_x_vector": 1}, "do_logging": True}, set()),
    # bounds
    "bounds": (dict(_BOX2), set()),
    "bounds_scaling": (dict(_BOX2, scaling=True), set()),
    "bounds_scaling_magnitudes": ({"lo": [-1.21, -500.0], "hi": [-1.15, 1500.0], "scaling": True}, set()),
    "bounds_onesided": ({"lo": [-1.5, None], "hi": None}, set()),
    "bounds_x0_infeasible_both_ways": (dict(_BOX2, x0=[-2.5, 2.5]), set()),
    "bounds_n3": ({"prob": "rosen3", "lo": [-1.5, -0.5, -1.0], "hi": [0.9, 1.7, 0.8]}, {"n3"}),
    "one_variable": ({"prob": "one", "lo": [-0.5], "hi": [3.0]}, set()),
    # projections
    "sets": ({"sets": _SETS2}, {"sets"}),
    "sets_bounds": (dict(_BOX2, sets=[_SETS2[0]]), {"sets"}),
    "sets_dykstra_params": ({"sets": _SETS2, "up": {"dykstra.d_tol": 1e-6, "dykstra.max_iters": 20, "matrix_rank.r_tol": 1e-12}}, {"sets"}),
    "sets_soft_x0_outside": ({"sets": _SETS2, "x0": [3.0, 2.5], "up": dict(_R)}, {"sets"}),
    "sets_hard_bounds": (dict(_BOX2, sets=[_SETS2[1]], up=dict(_H)), {"sets"}),
    # regulariser (slow: small budgets)
    "l1": ({"reg": {"r": "l1", "lam": 0.05}}, {"reg"}),
    "l2_args_bounds": (dict(_BOX2, reg={"r": "l2", "lam": 0.1, "args": True}), {"reg"}),
    "l1_functol": ({"reg": {"r": "l1", "lam": 0.5}, "up": {"func_tol.criticality_measure": 1e-2, "func_tol.tr_step": 0.5, "func_tol.max_iters": 50,
                                                          "sfista.max_iters_scaling": 1.0}}, {"reg"}),
    "l1_sets": ({"reg": {"r": "l1", "lam": 0.05}, "sets": [_SETS2[0]]}, {"reg", "sets"}),
    # regulariser with the subproblem solver capped at 10 iterations: fast enough for ordinary budgets (and the overlays),
    # so that the regularised code paths meet restarts, scaling, averaging, saved points and every exit
    "l1_fast": ({"reg": {"r": "l1", "lam": 0.05}, "up": dict(_F)}, {"regfast"}),
    "l1_fast_bounds_scaling": (dict(_BOX2, scaling=True, reg={"r": "l1", "lam": 0.05}, up=dict(_F)), {"regfast"}),
    "l2_fast_args_bounds": (dict(_BOX2, reg={"r": "l2", "lam": 0.1, "args": True}, up=dict(_F)), {"regfast"}),
    "l1_fast_hard": ({"reg": {"r": "l1", "lam": 0.05}, "up": dict(_H, **_F)}, {"regfast"}),
    "l2_fast_far_x0": ({"reg": {"r": "l2", "lam": 0.1}, "up": dict(_F), "x0": [50.0, -30.0]}, {"regfast"}),
    "l1_fast_sets": ({"reg": {"r": "l1", "lam": 0.05}, "sets": [_SETS2[0]], "up": dict(_F)}, {"regfast", "sets"}),
    "l1_fast_n3": ({"reg": {"r": "l1", "lam": 0.05}, "up": dict(_F), "prob": "nzr3"}, {"regfast", "n3"}),
    # the 'objective is sufficiently small' exits of the regularised code path (at x0, and later)
    "l1_fast_abs_tol_x0": ({"reg": {"r": "l1", "lam": 0.05}, "up": dict(_F, **{"model.abs_tol": 1e3})}, {"regfast"}),
    "l1_fast_abs_tol": ({"reg": {"r": "l1", "lam": 0.05}, "up": dict(_F, **{"model.abs_tol": 2.0})}, {"regfast"}),
    # the noise-level exit for a deterministic objective (a user-supplied level above the spread of the initial values)
    "noise_level_deterministic": ({"up": {"noise.quit_on_noise_level": True, "noise.additive_noise_level": 1e6}}, set()),
    "noise_level_deterministic_soft": ({"up": dict(_R, **{"noise.quit_on_noise_level": True, "noise.additive_noise_level": 1e6})}, set()),
}

# Geometries in which a trust-region step can increase the model (several active constraints / a finely converged run):
# with the answer 'best' at one evaluation the abandoned trial point is the best point seen (finding 6).  Returned with an
# exploration plan (all single deviations with two letters), for the checks that look at results and exits.
_BOXBALL = [{"t": "ball", "c": [0.7, 1.5], "r": 0.4}, {"t": "box", "l": [-2.0, 1.1], "u": [0.9, 3.0]}]
_TRINC = {
    "boxball_fine": {"sets": _BOXBALL, "x0": [-1.2, 0.7], "rhobeg": 0.12, "rhoend": 1e-8},
    "doc_ballbox": {"sets": [{"t": "ball", "c": [0.7, 1.5], "r": 0.4}], "lo": [-2.0, 1.1], "hi": [0.9, 3.0], "x0": [-1.2, 1.0],
                    "rhobeg": 0.12, "rhoend": 1e-8},
    # no constraints at all, but an initial radius of 1e4: with the answer 'best' at evaluation 2 the model of the second
    # iteration is so badly scaled that the box solver's step increases it in floating point (the *error* exit)
    "huge_rhobeg": {"rhobeg": 1e4, "rhoend": 1e-2, "maxfun": 25},
}


def tr_increase_cfgs(salt=0, restarts=("none", "hard_new"), probs=("rosen",), maxfun=60, letters=("best", "x0.3")):
    out = []
    for name, m in _TRINC.items():
        for rmode in restarts:
            for prob in probs:
                cfg = base_cfg(prob, salt, npt=3, rhobeg=m["rhobeg"], rhoend=m["rhoend"], maxfun=m.get("maxfun", maxfun), memo=True,
                               tag_mode="trinc/%s/%s" % (name, rmode))
                for k in ("lo", "hi", "sets", "x0"):
                    if k in m:
                        cfg[k] = m[k]
                up = user_params(3, RESTART_MODES[rmode])
                if up:
                    cfg["user_params"] = up
                cfg["broad_flags"] = (["sets"] if "sets" in m else []) + ["trinc"]
                out.append((cfg, {"depth": 1, "letters": list(letters)}))
    return out


# Extreme values of every numeric parameter, each inside the feature that reads it.  One mode per value.  Only values that
# both the documentation and the implementation's own range table accept (validity itself is C07's business).
_NOISE = {"noise_amp": 0.05, "memo": False}
_XTREME = [
    # (context name, context mode, flags, parameter, values)
    ("", {}, set(), "tr_radius.eta1", [0.001, 0.69]),
    ("", {}, set(), "tr_radius.eta2", [0.11, 0.999]),
    ("", {}, set(), "tr_radius.gamma_dec", [0.01, 0.999]),
    ("", {}, set(), "tr_radius.gamma_inc", [1.0, 50.0]),
    ("", {}, set(), "tr_radius.gamma_inc_overline", [1.0, 100.0]),
    ("", {}, set(), "tr_radius.alpha1", [0.001, 0.999]),
    ("", {}, set(), "tr_radius.alpha2", [0.001, 0.1, 0.999]),
    ("", {}, set(), "general.safety_step_thresh", [0.0, 0.999, 5.0]),
    ("", {}, set(), "general.rounding_error_constant", [0.0, 1e6]),
    ("", {}, set(), "model.abs_tol", [0.0, 1e3]),
    ("", {}, set(), "model.rel_tol", [0.0, 0.999]),
    ("", {}, set(), "slow.history_for_slow", [1, 50]),
    ("", {}, set(), "slow.thresh_for_slow", [0.0, 1e6]),
    ("", {}, set(), "slow.max_slow_iters", [1, 1000]),
    ("npt5", {"npt": 5}, set(), "regression.num_extra_steps", [3, 4]),
    ("soft", {"up": dict(_R)}, set(), "restarts.max_unsuccessful_restarts", [2, 3]),
    ("soft", {"up": dict(_R)}, set(), "restarts.rhoend_scale", [1e-3, 1.0]),
    ("soft", {"up": dict(_R)}, set(), "restarts.soft.num_geom_steps", [0, 2]),
    ("soft", {"up": dict(_R)}, set(), "restarts.soft.max_fake_successful_steps", [1, 100]),
    ("hard", {"up": dict(_H)}, set(), "restarts.max_unsuccessful_restarts", [2]),
    ("hard", {"up": dict(_H)}, set(), "restarts.rhoend_scale", [1e-3, 1.0]),
    ("softinc", {"up": dict(_R, **{"restarts.increase_npt": True, "restarts.max_npt_plus": 3})}, {"random"}, "restarts.increase_npt_amt", [1, 3]),
    ("softauto", {"up": dict(_R), "objfun_has_noise": True, "noise_amp": 0.3, "memo": False}, {"noisy"}, "restarts.auto_detect.history", [1, 2]),
    ("softauto", {"up": dict(_R, **{"restarts.auto_detect.history": 3}), "objfun_has_noise": True, "noise_amp": 0.3, "memo": False}, {"noisy"},
     "restarts.auto_detect.min_chgJ_slope", [0.0, 1e3]),
    ("softauto", {"up": dict(_R, **{"restarts.auto_detect.history": 3}), "objfun_has_noise": True, "noise_amp": 0.3, "memo": False}, {"noisy"},
     "restarts.auto_detect.min_correl", [0.0, 0.999]),
    ("noise", dict(_NOISE, up={"noise.quit_on_noise_level": True, "noise.additive_noise_level": 0.5}), {"noisy"}, "noise.scale_factor_for_quit", [0.0, 1e3]),
    ("noise", dict(_NOISE, up={"noise.quit_on_noise_level": True}), {"noisy"}, "noise.additive_noise_level", [0.0, 1e6]),
    ("noise", dict(_NOISE, up={"noise.quit_on_noise_level": True}), {"noisy"}, "noise.multiplicative_noise_level", [0.0, 1e3]),
    ("grow", {"up": dict(_G)}, {"random"}, "growing.num_new_dirns_each_iter", [0, 2]),
    ("grow", {"up": dict(_G)}, {"random"}, "growing.delta_scale_new_dirns", [1e-3, 10.0]),
    ("grow", {"up": dict(_G)}, {"random"}, "growing.gamma_dec", [0.01, 0.999]),
    ("grow", {"up": dict(_G)}, {"random"}, "growing.full_rank.scale_factor", [0.0, 10.0]),
    ("grow", {"up": dict(_G)}, {"random"}, "growing.full_rank.svd_scale_factor", [0.0, 1.0]),
    ("grow", {"up": dict(_G)}, {"random"}, "growing.full_rank.min_sing_val", [0.0, 1.0]),
    ("grow", {"up": dict(_G)}, {"random"}, "growing.full_rank.svd_max_jac_cond", [1.0, 1e16]),
    ("sets", {"sets": _SETS2}, {"sets"}, "dykstra.d_tol", [1e-12, 1e-2]),
    ("sets", {"sets": _SETS2}, {"sets"}, "dykstra.max_iters", [1, 2]),
    ("sets", {"sets": _SETS2}, {"sets"}, "matrix_rank.r_tol", [0.0, 1e-6]),
    ("l1", {"reg": {"r": "l1", "lam": 0.05}, "up": dict(_F)}, {"regfast"}, "func_tol.criticality_measure", [1e-8, 1.0]),
    ("l1", {"reg": {"r": "l1", "lam": 0.05}, "up": dict(_F)}, {"regfast"}, "func_tol.tr_step", [0.001, 0.999]),
    ("l1", {"reg": {"r": "l1", "lam": 0.05}}, {"regfast"}, "func_tol.max_iters", [1, 2]),
    ("l1", {"reg": {"r": "l1", "lam": 0.05}, "up": dict(_F)}, {"regfast"}, "sfista.max_iters_scaling", [1.0, 5.0]),
]
# radii: rhobeg barely above rhoend, very large rhobeg, very small rhoend
_XRADII = [("radii_close", {"rhobeg": 0.015, "rhoend": 0.01}), ("radii_close_soft", {"rhobeg": 0.015, "rhoend": 0.01, "up": dict(_R)}),
           ("radii_huge_rhobeg", {"rhobeg": 1e4}), ("radii_tiny_rhoend", {"rhobeg": 1e-6, "rhoend": 1e-14})]


def extreme_modes():
    out = []
    for ctx, m, flags, key, vals in _XTREME:
        for v in vals:
            m2 = dict(m)
            m2["up"] = dict(m.get("up", {}), **{key: v})
            out.append(("x/%s%s=%g" % (ctx + "/" if ctx else "", key, v), (m2, set(flags) | {"extreme"})))
    for name, m in _XRADII:
        out.append(("x/" + name, (dict(m), {"extreme"})))
    return out


def _overlaid_modes(overlays):
    """The bank itself plus, for each requested overlay, every compatible mode combined with one cross-cutting feature:
    'avg' (two samples per point, so that evaluation and point counters differ) and 'soft' (soft restarts)."""
    items = list(BROAD_MODES.items()) + extreme_modes()
    for ov in overlays:
        for name, (m, flags) in BROAD_MODES.items():
            if "reg" in flags:
                continue
            m2 = dict(m)
            if ov == "avg":
                if "avg" in flags:
                    continue
                m2.update(nsamples="const2", memo=False)
                m2.setdefault("noise_amp", 0.02)
                items.append((name + "+avg", (m2, set(flags) | {"avg", "noisy"})))
            elif ov == "soft":
                up = dict(m.get("up", {}))
                if up.get("restarts.use_restarts"):
                    continue
                up["restarts.use_restarts"] = True
                m2["up"] = up
                items.append((name + "+soft", (m2, set(flags))))
    return items


def broad_cfgs(probs=("rosen", "nzr"), budgets=(7, 25, 60), salt=0, exclude=(), require=(), extra_up=None, reg_budgets=(6, 12),
               rhoend=0.01, overlays=()):
    """(name, cfg) pairs of the broad bank.  Modes carrying a flag in `exclude` are skipped; `require` keeps only modes
    that carry all the given flags; `extra_up` is merged into every user_params dict; `overlays` adds pairwise variants."""
    out = []
    for name, (m, flags) in _overlaid_modes(overlays):
        if set(exclude) & flags or not set(require) <= flags:
            continue
        plist = [m["prob"]] if "prob" in m else list(probs)
        for prob in plist:
            n = DIM[prob]
            npt = m.get("npt", n + 1)
            for maxfun in (reg_budgets if "reg" in flags else budgets):
                cfg = base_cfg(prob, salt, npt=npt, rhobeg=m.get("rhobeg", 0.3), rhoend=m.get("rhoend", rhoend), maxfun=maxfun,
                               memo=m.get("memo", True), tag_mode="broad/" + name)
                for k in ("lo", "hi", "scaling", "sets", "reg", "nsamples", "noise_amp", "objfun_has_noise", "do_logging"):
                    if k in m:
                        cfg[k] = m[k]
                if "x0" in m and len(m["x0"]) == n:
                    cfg["x0"] = list(m["x0"])
                up = user_params(npt, m.get("up", {}), extra_up or {})
                if up:
                    cfg["user_params"] = up
                cfg["broad_flags"] = sorted(flags)
                out.append((name, cfg))
    return out


# ------------------------------------------------------------------------------------------------------------------
# Linear-algebra faults.  The package declares LinAlgError out of Model.solve_geom_system as an environment failure it
# recovers from (three `except LA.LinAlgError` chains: the fit, the geometry step, the choice of the point to replace; eight
# exits / error-recovery restarts in solve_main hang off them).  No objective answer can make the interpolation points
# affinely dependent, so without owning this answer none of that code is ever executed (tools/linecov.sh showed 130 lines
# of solve_main never run by any check).  These rows make every declared call a choice point (solvex, kind "la").
# ------------------------------------------------------------------------------------------------------------------
_LA_MODES = {
    "none": {},
    "soft": {"up": RESTART_MODES["soft"]},
    "soft_inc": {"up": RESTART_MODES["soft_inc"]},
    "soft_nomove": {"up": RESTART_MODES["soft_nomove"]},
    "hard_old": {"up": RESTART_MODES["hard_old"]},
    "hard_new": {"up": RESTART_MODES["hard_new"]},
    "bounds_scaling_soft": dict(_BOX2, scaling=True, up=dict(_R)),
    "npt5_extra_soft": {"npt": 5, "up": dict(_R, **{"regression.num_extra_steps": 1})},
    "grow_newdirs_soft": {"up": dict(_R, **{"growing.ndirs_initial": 1, "growing.num_new_dirns_each_iter": 1, "growing.do_geom_steps": True})},
    # two new directions per iteration: the set becomes complete between the first and the second, which then has to choose
    # a point to replace inside add_new_direction_while_growing
    "grow_newdirs2_soft": {"up": dict(_R, **{"growing.ndirs_initial": 1, "growing.num_new_dirns_each_iter": 2, "growing.do_geom_steps": True})},
    "grow_newdirs2": {"up": {"growing.ndirs_initial": 1, "growing.num_new_dirns_each_iter": 2, "growing.do_geom_steps": True}},
    "grow_full_geom_soft": {"up": dict(_R, **{"growing.ndirs_initial": 1, "growing.safety.full_geom_step": True, "general.safety_step_thresh": 5.0,
                                             "growing.delta_scale_new_dirns": 20.0}), "prob": "nzr3"},
    "avg2_soft": {"nsamples": "const2", "noise_amp": 0.02, "memo": False, "up": dict(_R)},
    "sets_soft": {"sets": _SETS2, "up": dict(_R)},
    "l1fast_soft": {"reg": {"r": "l1", "lam": 0.05}, "up": dict(_R, **_F)},
}


def linalg_fault_cfgs(salt=0, tier="quick", probs=("rosen", "nzr"), maxfun=30, extra_up=None, modes=None, obj_letters=("best", "nan")):
    """(cfg, plan) rows: every declared linear-algebra call answered 'singular' once (thorough: also every pair of one
    objective-answer deviation and one linear-algebra fault on the restart modes)."""
    out = []
    for name, m in _LA_MODES.items():
        if modes is not None and name not in modes:
            continue
        plist = [m["prob"]] if "prob" in m else list(probs)
        for prob in plist:
            n = DIM[prob]
            npt = m.get("npt", n + 1)
            cfg = base_cfg(prob, salt, npt=npt, rhobeg=0.3, rhoend=0.02, maxfun=maxfun if "reg" not in m else 14, memo=m.get("memo", True),
                           tag_mode="la/" + name)
            for k in ("lo", "hi", "scaling", "sets", "reg", "nsamples", "noise_amp"):
                if k in m:
                    cfg[k] = m[k]
            up = user_params(npt, m.get("up", {}), extra_up or {})
            if up:
                cfg["user_params"] = up
            flags = ["la"]
            flags += ["random"] if name.startswith("grow") or name == "soft_inc" else []
            flags += ["avg", "noisy"] if "nsamples" in m else []
            flags += ["sets"] if "sets" in m else []
            flags += ["regfast"] if "reg" in m else []
            cfg["broad_flags"] = flags
            deep = tier == "thorough" and name in ("none", "soft", "hard_new") and prob == "rosen"
            plan = {"depth": 2 if deep else 1, "letters": list(obj_letters) if deep else [], "la_letters": ["singular"]}
            out.append((cfg, plan))
            # two linear-algebra failures in one execution (a failure, the restart that recovers from it, a failure again),
            # every ordered pair, on a short budget
            if name in ("soft", "hard_new", "soft_inc", "npt5_extra_soft") and prob == "rosen":
                c2 = dict(cfg, maxfun=16 if npt == n + 1 else 20, tag_mode="la2/" + name)
                out.append((c2, {"depth": 2, "letters": [], "la_letters": ["singular"]}))
    return out
