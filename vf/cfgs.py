"""Configuration alphabets shared by the E1 property modules."""

RESTART_MODES = {
    "none": {},
    "soft": {"restarts.use_restarts": True},
    "soft_inc": {"restarts.use_restarts": True, "restarts.increase_npt": True, "restarts.max_npt_plus": 2},
    "soft_nomove": {"restarts.use_restarts": True, "restarts.soft.move_xk": False},
    "hard_old": {"restarts.use_restarts": True, "restarts.use_soft_restarts": False},
    "hard_new": {"restarts.use_restarts": True, "restarts.use_soft_restarts": False,
                 "restarts.hard.use_old_rk": False},
    "hard_inc": {"restarts.use_restarts": True, "restarts.use_soft_restarts": False, "restarts.increase_npt": True,
                 "restarts.max_npt_plus": 2},
}

NOISE_MODES = {
    "off": ({}, False),
    "has_noise": ({}, True),
    "additive": ({"noise.quit_on_noise_level": True, "noise.additive_noise_level": 10.0}, False),
}

X0 = {"rosen": [-1.2, 1.0], "nzr": [-1.2, 1.0], "one": [2.0], "rosen3": [-1.2, 1.0, 0.5], "nzr3": [0.5, -0.5, 1.0],
      "inv": [0.5, -0.5, 1.0]}
DIM = {"rosen": 2, "nzr": 2, "one": 1, "rosen3": 3, "nzr3": 3, "inv": 3}


def user_params(npt, *dicts):
    """Merge parameter dicts; the pseudo key restarts.max_npt_plus is resolved against npt."""
    up = {}
    for d in dicts:
        up.update(d)
    if "restarts.max_npt_plus" in up:
        up["restarts.max_npt"] = npt + up.pop("restarts.max_npt_plus")
    return up


def base_cfg(prob, salt=0, **kw):
    cfg = {"prob": {"f": prob, "salt": salt}, "x0": list(X0[prob]), "memo": True}
    cfg.update(kw)
    return cfg
