"""Property monitors for E1 executions (shared between property modules)."""
import numpy as np

from . import solvex, bank

SUCCESS = 0
INPUT_ERROR = -1


def _finite(a):
    return a is not None and np.all(np.isfinite(a))


def groups_by_point(ex):
    """point number (as labelled by the solver) -> list of calls."""
    g = {}
    for c in ex.calls:
        g.setdefault(c["pt_num"], []).append(c)
    return g


def hval(ex, x):
    return 0.0 if ex.reg is None else float(bank.h_value(ex.cfg["reg"], x))


def xscale(ex, x):
    s = max(1.0, float(np.max(np.abs(x))) if len(x) else 1.0)
    for b in (ex.lo, ex.hi):
        if b is not None:
            bb = np.abs(b[np.abs(b) < 1e19])
            if len(bb):
                s = max(s, float(np.max(bb)))
    return s


# ---------------------------------------------------------------------------------------------------------------
# C01: exact bounds on every evaluated point and on the result
# ---------------------------------------------------------------------------------------------------------------
class BoundsMonitor(solvex.Monitor):
    def on_call(self, ex, call):
        x = call["x"]
        if ex.lo is not None and np.any(x < ex.lo):
            j = int(np.argmax(ex.lo - x))
            ex.violate("bounds_eval", "call %d (%s): x[%d]=%r below lower bound %r by %.3g" % (
                call["k"], call["site"], j, x[j], ex.lo[j], ex.lo[j] - x[j]))
        if ex.hi is not None and np.any(x > ex.hi):
            j = int(np.argmax(x - ex.hi))
            ex.violate("bounds_eval", "call %d (%s): x[%d]=%r above upper bound %r by %.3g" % (
                call["k"], call["site"], j, x[j], ex.hi[j], x[j] - ex.hi[j]))
        if not np.all(np.isfinite(x)):
            ex.violate("bounds_eval", "call %d (%s): non-finite x %s" % (call["k"], call["site"], x.tolist()))
        on = False
        if ex.lo is not None and np.any(x == ex.lo):
            on = True
        if ex.hi is not None and np.any(x == ex.hi):
            on = True
        if on:
            ex.tags.add("eval_on_bound")
            ex.tags.add("eval_on_bound@" + call["site"])

    def on_end(self, ex):
        s = ex.soln
        if s is None or s.x is None:
            return
        x = np.asarray(s.x)
        if ex.lo is not None and np.any(x < ex.lo):
            ex.violate("bounds_result", "soln.x=%s below lower bound %s" % (x.tolist(), ex.lo.tolist()))
        if ex.hi is not None and np.any(x > ex.hi):
            ex.violate("bounds_result", "soln.x=%s above upper bound %s" % (x.tolist(), ex.hi.tolist()))
        if (ex.lo is not None and np.any(x == ex.lo)) or (ex.hi is not None and np.any(x == ex.hi)):
            ex.tags.add("result_on_bound")


# ---------------------------------------------------------------------------------------------------------------
# C03: the returned solution is a point that was really evaluated (+ live model, every iteration)
# ---------------------------------------------------------------------------------------------------------------
class SolutionMonitor(solvex.Monitor):
    XT = 1e-12   # relative tolerance on positions (rounding of base-point arithmetic)
    RT = 1e-12   # relative tolerance on residual means / objective

    def __init__(self, per_iter=True, terminal=True):
        self.per_iter = per_iter
        self.terminal = terminal
        self.iter_reported = False

    def _check_point(self, ex, groups, what, x_user, rvec, obj, nsamp, evnum):
        """Compare one stored point with the recorded calls of the point number it carries."""
        if evnum is None or int(evnum) not in groups or int(evnum) < 1:
            return "%s carries evaluation number %s which is not a recorded point (1..%d)" % (what, evnum, len(groups))
        g = groups[int(evnum)]
        xr = g[0]["x"]
        sc = xscale(ex, xr)
        if x_user is not None:
            if not np.all(np.isfinite(x_user)) or np.max(np.abs(x_user - xr)) > self.XT * sc:
                return "%s at x=%s claims evaluation point %d which was x=%s (diff %.3g)" % (
                    what, np.asarray(x_user).tolist(), evnum, xr.tolist(), float(np.max(np.abs(x_user - xr))))
        rs = [c["r"] for c in g if c["r"] is not None]
        if nsamp is not None and int(nsamp) != len(rs):
            # a point may still be mid-sampling when the budget ends; the stored count must match what is stored
            rs = rs[:int(nsamp)] if int(nsamp) <= len(rs) else rs
            if int(nsamp) > len(g):
                return "%s claims %d samples, point %d was evaluated %d time(s)" % (what, nsamp, evnum, len(g))
        if rvec is not None and rs:
            mean = np.mean(np.array(rs), axis=0)
            if mean.shape != np.shape(rvec):
                return "%s residual has shape %s, recorded %s" % (what, np.shape(rvec), mean.shape)
            fin = np.isfinite(mean)
            if not np.array_equal(fin, np.isfinite(rvec)):
                return "%s residual finiteness differs from the recorded mean" % what
            rsc = max(1.0, float(np.max(np.abs(mean[fin]))) if fin.any() else 1.0)
            if fin.any() and np.max(np.abs(mean[fin] - np.asarray(rvec)[fin])) > self.RT * rsc * 10:
                return "%s residual %s is not the mean %s of the residuals returned at point %d" % (
                    what, np.asarray(rvec).tolist(), mean.tolist(), evnum)
        if obj is not None and rvec is not None and _finite(rvec):
            want = float(np.dot(rvec, rvec)) + hval(ex, xr)
            if not (abs(obj - want) <= self.RT * 10 * max(1.0, abs(want))):
                return "%s objective %r != sum(resid^2)+h(x) = %r" % (what, obj, want)
        return None

    def on_iter(self, ex, model):
        if not self.per_iter or self.iter_reported:
            return
        groups = groups_by_point(ex)
        sc = model.scaling_changes
        for k in range(model.npt()):
            if model.projections:
                xk = None      # absolute position goes through Dykstra: compared at the end of the run only
            else:
                xk = model.xbase + np.minimum(np.maximum(model.sl, model.points[k, :]), model.su)
                if sc is not None:
                    xk = sc[0] + xk * sc[1]
            msg = self._check_point(ex, groups, "iteration %d: interpolation point %d" % (ex.iters, k), xk,
                                    model.fval_v[k, :], float(model.objval[k]), model.nsamples[k], model.eval_num[k])
            if msg:
                ex.violate("live_model", msg)
                self.iter_reported = True
                return
        if model.objsave is not None:
            xs = model.xsave if sc is None else sc[0] + model.xsave * sc[1]
            msg = self._check_point(ex, groups, "iteration %d: saved point" % ex.iters, xs, model.rsave,
                                    float(model.objsave), model.nsamples_save, model.eval_num_save)
            if msg:
                ex.violate("live_saved", msg)
                self.iter_reported = True

    def on_end(self, ex):
        s = ex.soln
        if not self.terminal or ex.outcome != "returned" or s is None or s.flag == INPUT_ERROR:
            return
        if s.x is None:
            ex.violate("result_fields", "result without x for flag %s" % s.flag)
            return
        groups = groups_by_point(ex)
        ev = s.xmin_eval_num
        if ev is None or not (1 <= int(ev) <= len(groups)) or int(ev) not in groups:
            ex.violate("xmin_eval_num", "soln.xmin_eval_num=%s outside 1..%d (flag %s, %s)" % (ev, len(groups), s.flag, s.msg))
            return
        msg = self._check_point(ex, groups, "soln", np.asarray(s.x, dtype=float), np.asarray(s.resid, dtype=float),
                                None, None, ev)
        if msg:
            ex.violate("soln_is_evaluated_point", msg + " [%s]" % s.msg)
            return
        r = np.asarray(s.resid, dtype=float)
        if _finite(r):
            want = float(np.dot(r, r)) + hval(ex, np.asarray(s.x, dtype=float))
            if not (abs(s.obj - want) <= self.RT * 10 * max(1.0, abs(want))):
                ex.violate("obj_consistent", "soln.obj=%r but sum(resid^2)+h(x)=%r [%s]" % (s.obj, want, s.msg))
        ex.tags.add("exit:" + str(s.msg).split(":")[-1].strip()[:40])
        if ex.soft_restarts:
            ex.tags.add("after_soft_restart")
        if len(ex.controllers) > 1:
            ex.tags.add("after_hard_restart")
        if int(ev) == 1:
            ex.tags.add("soln_is_x0")
        if int(ev) == len(groups):
            ex.tags.add("soln_is_last_point")


# ---------------------------------------------------------------------------------------------------------------
# C04: the best point ever evaluated is never lost (deterministic objective, no averaging)
# ---------------------------------------------------------------------------------------------------------------
class BestKeptMonitor(solvex.Monitor):
    SLACK = 1e-13

    def __init__(self, per_iter=True):
        self.per_iter = per_iter
        self.iter_reported = False

    @staticmethod
    def best_recorded(ex, upto=None):
        best, arg = None, None
        for c in ex.calls[:upto]:
            f = c["f"]
            if f is not None and np.isfinite(f) and (best is None or f < best):
                best, arg = f, c
        return best, arg

    def on_iter(self, ex, model):
        if not self.per_iter or self.iter_reported:
            return
        best, arg = self.best_recorded(ex)
        if best is None:
            return
        live = model.objval[model.kopt]
        cands = [v for v in (live, model.objsave) if v is not None and np.isfinite(v)]
        cur = min(cands) if cands else np.inf
        if not cur <= best * (1 + self.SLACK) + 1e-300:
            self.iter_reported = True
            ex.violate("live_best", "iteration %d: best of incumbent/saved = %r but call %d (%s) gave %r" % (
                ex.iters, cur, arg["k"], arg["site"], best))

    def on_end(self, ex):
        s = ex.soln
        if ex.outcome != "returned" or s is None or s.flag == INPUT_ERROR:
            return
        best, arg = self.best_recorded(ex)
        if best is None:
            ex.tags.add("no_finite_value")
            return
        if s.obj is None or not (s.obj <= best * (1 + self.SLACK) + 1e-300):
            ex.violate("best_kept", "soln.obj=%r but evaluation %d at %s (site %s, letter %s) had objective %r [%s]" % (
                s.obj, arg["k"], arg["x"].tolist(), arg["site"], arg["letter"], best, s.msg))
        if arg["k"] == len(ex.calls):
            ex.tags.add("best_is_last_eval")
            ex.tags.add("best_is_last_eval@" + arg["site"])
        if arg["letter"] not in ("real", "memo"):
            ex.tags.add("best_from_deviation")
            ex.tags.add("best_from_deviation|" + str(s.msg).split(":")[-1].strip()[:40])
        f0 = ex.calls[0]["f"]
        if f0 is not None and np.isfinite(f0) and not (s.obj <= f0 * (1 + self.SLACK)):
            ex.violate("not_worse_than_x0", "soln.obj=%r > f(x0)=%r" % (s.obj, f0))


# ---------------------------------------------------------------------------------------------------------------
# C08: bad objective values are survived gracefully
# ---------------------------------------------------------------------------------------------------------------
class FaultMonitor(solvex.Monitor):
    def on_end(self, ex):
        cfg = ex.cfg
        faults = [c for c in ex.calls if c["letter"] in solvex.FAULT_LETTERS]
        first = faults[0] if faults else None
        raised_letter = first is not None and any(c["letter"] == "raise" for c in faults)
        optin = bool((cfg.get("user_params") or {}).get("interpolation.throw_error_on_nans"))
        if first is not None:
            ex.tags.add("fault@%s|%s" % (first["site"], first["letter"]))
        if raised_letter:
            rc = [c for c in faults if c["letter"] == "raise"][0]
            if ex.outcome != "raised" or ex.exc is not ex.user_exc:
                ex.violate("exception_propagates", "objfun raised at call %d (%s) but solve %s" % (
                    rc["k"], rc["site"], "returned flag %s" % ex.soln.flag if ex.soln is not None else
                    "raised a different exception %r" % (ex.exc,)))
            elif ex.calls[-1] is not rc:
                ex.violate("no_calls_after_exception", "%d further evaluation(s) after objfun raised at call %d" % (
                    len(ex.calls) - rc["k"], rc["k"]))
            return
        if ex.outcome == "raised":
            if optin and type(ex.exc).__name__ == "LinAlgError":
                ex.tags.add("optin_linalgerror")
                return
            ex.violate("no_exception", "solve raised %s: %s (first fault: call %s %s at %s)" % (
                type(ex.exc).__name__, ex.exc, first and first["k"], first and first["letter"], first and first["site"]))
            return
        if ex.outcome != "returned":
            return
        s = ex.soln
        if s.flag == INPUT_ERROR:
            ex.violate("no_exception", "input error reported for valid input: %s" % s.msg)
            return
        ex.tags.add("fault_exit|%s|%s" % (first["site"] if first else "-", str(s.msg).split(":")[-1].strip()[:40]))
        x = None if s.x is None else np.asarray(s.x, dtype=float)
        if x is None or not np.all(np.isfinite(x)):
            ex.violate("finite_x", "soln.x=%s is not finite" % (None if x is None else x.tolist()))
        else:
            sc = xscale(ex, x)
            if not any(np.max(np.abs(c["x"] - x)) <= 1e-12 * sc for c in ex.calls):
                ex.violate("x_was_evaluated", "soln.x=%s is not one of the %d evaluated points" % (x.tolist(), len(ex.calls)))
        if first is not None:
            # "a finite best point found earlier": under averaging an evaluation is one SAMPLE of a point; samples of the very
            # point the fault lands on are not an earlier point (its mean legitimately contains the bad sample - C03 requires
            # soln.resid to be the mean of everything returned there, so no implementation could return a finite value for it)
            before = [c["f"] for c in ex.calls[:first["k"] - 1] if c["f"] is not None and np.isfinite(c["f"])
                      and (c.get("pt_num") is None or c.get("pt_num") != first.get("pt_num") or c.get("run") != first.get("run"))]
            if before:
                if s.obj is None or not np.isfinite(s.obj):
                    ex.violate("finite_obj_kept", "a finite value %r was seen before the fault at call %d (%s, %s) but soln.obj=%r [%s]" % (
                        min(before), first["k"], first["letter"], first["site"], s.obj, s.msg))
                elif cfg.get("nsamples") is None and cfg.get("memo", True) and not (s.obj <= min(before) * (1 + 1e-13) + 1e-300):
                    ex.violate("fault_displaces_best", "soln.obj=%r worse than best pre-fault value %r (fault %s at call %d, %s) [%s]" % (
                        s.obj, min(before), first["letter"], first["k"], first["site"], s.msg))


def raise_is_allowed(ex):
    """solve may raise only if the objective itself raised (the 'raise' letter) or the user opted into
    interpolation.throw_error_on_nans and the exception is numpy's LinAlgError."""
    if any(c["letter"] == "raise" for c in ex.calls):
        return True
    optin = bool((ex.cfg.get("user_params") or {}).get("interpolation.throw_error_on_nans"))
    return optin and type(ex.exc).__name__ == "LinAlgError"


class ReturnsMonitor(solvex.Monitor):
    """Valid configuration: solve must return a result object that is not an input error (C07 clause e)."""

    def on_end(self, ex):
        if ex.outcome == "raised" and not raise_is_allowed(ex):
            ex.violate("returns", "solve raised %s: %s" % (type(ex.exc).__name__, ex.exc))
        elif ex.outcome == "returned" and ex.soln.flag == INPUT_ERROR:
            ex.violate("returns", "input error for a valid configuration: %s" % ex.soln.msg)
