"""Shared runner infrastructure: repo import, evidence, known findings, replay files, pool."""
import os
import sys
import json
import time
import hashlib
import subprocess

for _v in ("OMP_NUM_THREADS", "OPENBLAS_NUM_THREADS", "MKL_NUM_THREADS", "NUMEXPR_NUM_THREADS"):
    os.environ.setdefault(_v, "1")

VERIF = os.path.dirname(os.path.dirname(os.path.abspath(__file__)))
REPO = os.environ.get("DFOLS_REPO", "/repo")   # checks registered in MANIFEST always use /repo
if sys.path[0] != REPO:
    sys.path.insert(0, REPO)

import numpy as np  # noqa: E402
import warnings  # noqa: E402
import logging  # noqa: E402

warnings.simplefilter("ignore")
np.seterr(all="ignore")
logging.getLogger("dfols").addHandler(logging.NullHandler())
logging.getLogger("dfols").propagate = False

import dfols  # noqa: E402

assert os.path.abspath(dfols.__file__).startswith(os.path.abspath(REPO) + os.sep), \
    "dfols imported from %s, not from %s" % (dfols.__file__, REPO)

NPROC = int(os.environ.get("VERIF_NPROC", "16"))

# ----------------------------------------------------------------------------------------------
# Optional line coverage of the tree under test (tools/linecov.sh): VERIF_LINECOV=<dir> makes every process of a check
# record which lines of REPO/dfols it executed (sys.monitoring, each location disabled after its first hit, so the cost
# is negligible) and write them to <dir>/<check>.<pid>.json. Used to find code no check ever runs; not part of a verdict.
# ----------------------------------------------------------------------------------------------
LINECOV = os.environ.get("VERIF_LINECOV")
_cov_hits = set()
_cov_dumped = [0]


def _cov_dump():
    if LINECOV and len(_cov_hits) != _cov_dumped[0]:
        _cov_dumped[0] = len(_cov_hits)
        p = os.path.join(LINECOV, "%s.%d.json" % (os.environ.get("VERIF_LINECOV_TAG", "x"), os.getpid()))
        with open(p + ".tmp", "w") as f:
            json.dump(sorted(_cov_hits), f)
        os.replace(p + ".tmp", p)


if LINECOV and hasattr(sys, "monitoring"):
    os.makedirs(LINECOV, exist_ok=True)
    _pkg = os.path.join(os.path.abspath(REPO), "dfols") + os.sep
    _mon = sys.monitoring

    def _cov_line(code, line, _pkg=_pkg, _hits=_cov_hits, _dis=_mon.DISABLE):   # bound early: also called at shutdown
        if code.co_filename.startswith(_pkg):
            _hits.add((code.co_filename[len(_pkg):], line))
        return _dis

    _mon.use_tool_id(_mon.COVERAGE_ID, "verif-linecov")
    _mon.register_callback(_mon.COVERAGE_ID, _mon.events.LINE, _cov_line)
    _mon.set_events(_mon.COVERAGE_ID, _mon.events.LINE)
    import atexit
    atexit.register(_cov_dump)


def _cov_wrap(ft):
    r = ft[0](ft[1])
    _cov_dump()
    return r
NSALTS = 8


class HarnessError(Exception):
    """The machinery itself is broken (nondeterminism, vacuity, oracle disagreement): exit 2, never a VIOLATION."""


def seed_from_env():
    try:
        return int(os.environ.get("VERIF_SEED", "0"))
    except ValueError:
        return 0


def salts_for(tier, seed):
    """quick: base salt 0 plus salt (seed mod 8); thorough: all 8."""
    if tier == "thorough":
        return list(range(NSALTS))
    s = seed % NSALTS
    return [0] if s == 0 else [0, s]


def jsonable(o):
    if isinstance(o, dict):
        return {str(k): jsonable(v) for k, v in o.items()}
    if isinstance(o, (list, tuple)):
        return [jsonable(v) for v in o]
    if isinstance(o, np.ndarray):
        return jsonable(o.tolist())
    if isinstance(o, (np.integer,)):
        return int(o)
    if isinstance(o, (np.floating, float)):
        f = float(o)
        if f != f:
            return "NaN"
        if f in (float("inf"), float("-inf")):
            return "inf" if f > 0 else "-inf"
        return f
    if isinstance(o, (np.bool_,)):
        return bool(o)
    if isinstance(o, (str, int, bool)) or o is None:
        return o
    return repr(o)


def sha(obj):
    return hashlib.sha1(json.dumps(jsonable(obj), sort_keys=True).encode()).hexdigest()


# ----------------------------------------------------------------------------------------------
# Known findings
# ----------------------------------------------------------------------------------------------
def load_known():
    p = os.path.join(VERIF, "known_findings.json")
    if not os.path.exists(p):
        return []
    with open(p) as f:
        d = json.load(f)
    return [e for e in d.get("known", [])]


def match_known(known, prop, clause, tags):
    """A known entry matches when property and clause agree and every key of its 'where' equals the tag."""
    for e in known:
        if e["property"] != prop:
            continue
        if e.get("clause") not in (None, clause):
            continue
        if all(tags.get(k) == v for k, v in e.get("where", {}).items()):
            return e
    return None


# ----------------------------------------------------------------------------------------------
# Violation collection / reporting
# ----------------------------------------------------------------------------------------------
class Report(object):
    def __init__(self, prop, tier, seed, level):
        self.prop = prop
        self.tier = tier
        self.seed = seed
        self.level = level
        self.t0 = time.time()
        self.known = load_known()
        self.violations = []      # (clause, detail, replay dict, tags)
        self.known_hits = {}      # entry id -> count
        self.coverage = {}
        self.assumptions = []
        self.notes = []

    def add_violation(self, clause, detail, replay, tags=None):
        tags = tags or {}
        e = match_known(self.known, self.prop, clause, tags)
        if e is not None:
            key = e.get("id") or json.dumps(e, sort_keys=True)
            self.known_hits.setdefault(key, [e, 0, detail])
            self.known_hits[key][1] += 1
            return False
        self.violations.append((clause, detail, replay, tags))
        return True

    def finish(self):
        wall = time.time() - self.t0
        ev = {
            "property_id": self.prop,
            "tier": self.tier,
            "seed": int(self.seed),
            "level": self.level,
            "coverage": jsonable(self.coverage),
            "assumptions": list(self.assumptions),
            "wall_s": round(wall, 3),
            "violations": len(self.violations),
        }
        ev["coverage"]["known_findings_hit"] = {k: v[1] for k, v in self.known_hits.items()}
        ev["coverage"]["repo"] = REPO
        validate_evidence(ev)
        os.makedirs(os.path.join(VERIF, "evidence"), exist_ok=True)
        path = os.path.join(VERIF, "evidence", "%s.json" % self.prop)
        if os.environ.get("VERIF_NO_EVIDENCE") != "1":
            tmp = path + ".tmp%d" % os.getpid()
            with open(tmp, "w") as f:
                json.dump(ev, f, indent=1, sort_keys=True)
                f.write("\n")
            os.replace(tmp, path)
        cov = ev["coverage"]
        print("[%s] tier=%s seed=%d wall=%.1fs %s" % (
            self.prop, self.tier, self.seed, wall,
            " ".join("%s=%s" % (k, cov[k]) for k in ("evaluations", "distinct_nontrivial", "states", "transitions",
                                                      "exhaustive") if k in cov)))
        for n in self.notes:
            print("  note: " + n)
        for key, (e, cnt, detail) in sorted(self.known_hits.items()):
            print("KNOWN-FINDING: property=%s %s [%d occurrence(s) this run; e.g. %s]" % (
                self.prop, e.get("what", key), cnt, detail[:160]))
        rdir = os.path.join(VERIF, "replays", self.prop)
        if os.path.isdir(rdir):
            for fn in os.listdir(rdir):      # replay files of earlier runs are stale
                if fn.endswith(".json"):
                    os.unlink(os.path.join(rdir, fn))
        if not self.violations:
            return 0
        # write at most 10 distinct replay files (shortest first)
        seen = set()
        n_out = 0
        vs = sorted(self.violations, key=lambda v: (len(json.dumps(jsonable(v[2]))), v[0]))
        for clause, detail, replay, tags in vs:
            key = sha([clause, replay])
            if key in seen:
                continue
            seen.add(key)
            n_out += 1
            if n_out > 10:
                continue
            d = os.path.join(VERIF, "replays", self.prop)
            os.makedirs(d, exist_ok=True)
            p = os.path.join(d, key[:16] + ".json")
            with open(p, "w") as f:
                json.dump(jsonable({"property": self.prop, "clause": clause, "detail": detail, "tags": tags,
                                    "replay": replay}), f, indent=1, sort_keys=True)
            print("VIOLATION property=%s replay=%s" % (self.prop, p))
            print("  clause=%s: %s" % (clause, detail[:400]))
        by = {}
        for v in self.violations:
            by[v[0]] = by.get(v[0], 0) + 1
        print("[%s] %d violation(s) in %d distinct replay(s); by clause: %s" % (self.prop, len(self.violations), len(seen), by))
        return 1


_REQ = ("property_id", "tier", "seed", "level", "coverage", "wall_s")


def validate_evidence(ev):
    for k in _REQ:
        if k not in ev:
            raise HarnessError("evidence lacks key %s" % k)
    cov = ev["coverage"]
    if ev["level"] in ("exploration", "fault_enumeration"):
        for k in ("evaluations", "distinct_nontrivial", "rule", "samples"):
            if k not in cov:
                raise HarnessError("evidence coverage lacks %s" % k)
        if cov["evaluations"] < 1 or cov["distinct_nontrivial"] < 2 or not cov["samples"]:
            raise HarnessError("evidence coverage is vacuous: %s" % {k: cov[k] for k in ("evaluations", "distinct_nontrivial")})
    if ev["level"] == "model_checking":
        for k in ("states", "transitions", "traces_validated_against_impl", "samples"):
            if k not in cov:
                raise HarnessError("evidence coverage lacks %s" % k)
        if cov["states"] < 1 or cov["transitions"] < 1 or not cov["samples"]:
            raise HarnessError("vacuous model-checking evidence")
    # full JSON-schema validation when the tooling interpreter is available (it has jsonschema; /venv does not)
    schema = "/root/.vp/EVIDENCE.schema.json"
    if os.path.exists(schema) and os.path.exists("/usr/local/bin/python3-vt") and os.environ.get("VERIF_SCHEMA", "1") == "1":
        code = ("import json,sys,jsonschema;"
                "jsonschema.validate(json.load(sys.stdin), json.load(open(%r)))" % schema)
        try:
            r = subprocess.run(["/usr/local/bin/python3-vt", "-c", code], input=json.dumps(ev).encode(),
                               capture_output=True, timeout=60)
        except Exception:  # tooling interpreter unusable: the structural check above stands
            return
        if r.returncode != 0:
            raise HarnessError("evidence does not validate: " + r.stderr.decode()[-400:])


# ----------------------------------------------------------------------------------------------
# Process pool (fork, started once per check)
# ----------------------------------------------------------------------------------------------
def pool_map(func, tasks, nproc=None, chunksize=1):
    import multiprocessing as mp
    nproc = nproc or NPROC
    tasks = list(tasks)
    if nproc <= 1 or len(tasks) <= 1:
        for t in tasks:
            yield func(t)
        return
    ctx = mp.get_context("fork")
    with ctx.Pool(min(nproc, len(tasks))) as pool:
        if LINECOV:
            for r in pool.imap_unordered(_cov_wrap, [(func, t) for t in tasks], chunksize):
                yield r
            return
        for r in pool.imap_unordered(func, tasks, chunksize):
            yield r
