"""E1 `solvex`: stateless, deviation-bounded exploration of dfols.solve.

The harness owns the environment of `solve`: every call of the residual function, every call of the nsamples
callback and every draw from np.random is a choice point.  An execution is identified by (cfg, devs) where devs maps
choice points to non-default answers.  All observation is done by wrapping callables that the library looks up at
call time - there are no hooks in the dfols sources.
"""
import sys
import signal
import hashlib
import inspect
import traceback

import numpy as np

from . import common
from .common import HarnessError
from . import bank

import dfols
import dfols.solver as S
import dfols.controller as C
import dfols.model as M
import dfols.util as U
import dfols.trust_region as T


class Abort(BaseException):
    """Raised by the harness to end an execution (never caught by library code, which catches Exception subclasses)."""


class Livelock(Abort):
    pass


class Timeout(Abort):
    pass


class UserRaise(Exception):
    """The exception object raised by the 'raise' answer letter."""


CUR = None          # the running Execution, or None (wrappers are transparent then)
WATCHDOG_W = 60     # identical heartbeats (no evaluation, same rho/delta/npt/run) tolerated before 'livelock'
EXEC_TIMEOUT = 120.0   # CPU seconds per execution

_installed = False
_final_check_line = None
_trial_line = None


def _site_from_frame(fr):
    name = fr.f_code.co_name
    if name == "geometry_step":
        up = fr.f_back
        return "geom/" + (up.f_code.co_name if up is not None else "?")
    if name == "solve_main":
        ln = fr.f_lineno
        if _final_check_line is not None and _trial_line is not None:
            # the call expression may span lines; pick the closest anchor at or before the current line
            return "main/final_check" if ln < _trial_line else "main/trial"
        return "main/line%d" % ln
    return name


_SITE_LINES = {}    # function name -> sorted line numbers of its evaluate_objective( call expressions


def _scan_sites():
    """Static table of every call site of Controller.evaluate_objective in the tree under test."""
    import ast
    out = {}
    for mod in (C, S):
        try:
            tree = ast.parse(inspect.getsource(mod))
        except (OSError, TypeError, SyntaxError):
            continue
        for fn in ast.walk(tree):
            if isinstance(fn, ast.FunctionDef):
                lines = sorted(set(nd.lineno for nd in ast.walk(fn) if isinstance(nd, ast.Call) and
                                   isinstance(nd.func, ast.Attribute) and nd.func.attr == "evaluate_objective"))
                if lines:
                    out[fn.name] = lines
                glines = sorted(set(nd.lineno for nd in ast.walk(fn) if isinstance(nd, ast.Call) and
                                    isinstance(nd.func, ast.Attribute) and nd.func.attr == "check_and_fix_geometry"))
                if glines:
                    out["@fixgeom/" + fn.name] = glines
    return out


GEOM_CALLERS = ("soft_restart", "move_furthest_points")
_EXIT_LINES = {}    # function name -> sorted line numbers of its ExitInformation( constructions


def _scan_exits():
    import ast
    out = {}
    for mod in (C, S):
        try:
            tree = ast.parse(inspect.getsource(mod))
        except (OSError, TypeError, SyntaxError):
            continue
        for fn in ast.walk(tree):
            if isinstance(fn, ast.FunctionDef):
                lines = sorted(set(nd.lineno for nd in ast.walk(fn) if isinstance(nd, ast.Call) and
                                   isinstance(nd.func, ast.Name) and nd.func.id == "ExitInformation"))
                if lines:
                    out[fn.name] = lines
    return out


_SAVE_LINES = {}    # function name -> sorted line numbers of its model.save_point( calls


def _scan_saves():
    import ast
    out = {}
    for mod in (C, S):
        try:
            tree = ast.parse(inspect.getsource(mod))
        except (OSError, TypeError, SyntaxError):
            continue
        for fn in ast.walk(tree):
            if isinstance(fn, ast.FunctionDef):
                lines = sorted(set(nd.lineno for nd in ast.walk(fn) if isinstance(nd, ast.Call) and
                                   isinstance(nd.func, ast.Attribute) and nd.func.attr == "save_point"))
                if lines:
                    out[fn.name] = lines
    return out


def all_save_ids():
    install()
    return ["%s#%d" % (fn, i) for fn, lines in sorted(_SAVE_LINES.items()) for i in range(len(lines))]


def all_exit_ids(include_input_checks=False):
    """Every place where the tree under test constructs an ExitInformation, as 'function#ordinal' (source order).  The
    constructions inside solve() are its input checks and its final adjustments (not run-time exits of the algorithm)."""
    install()
    return ["%s#%d" % (fn, i) for fn, lines in sorted(_EXIT_LINES.items()) for i in range(len(lines))
            if include_input_checks or fn != "solve"]


def all_site_ids():
    """Every evaluation site of the tree under test, as 'function#ordinal' (source order), plus the x0 evaluation."""
    install()
    out = ["x0"]
    for fn, lines in sorted(_SITE_LINES.items()):
        if fn.startswith("@fixgeom/"):
            out += ["geometry_step#0/check_and_fix_geometry@%d" % i for i in range(len(lines))]
        elif fn == "geometry_step":
            out += ["geometry_step#0/" + c for c in GEOM_CALLERS]
        else:
            out += ["%s#%d" % (fn, i) for i in range(len(lines))]
    return out


KNOWN_SITES = ['x0', 'geometry_step#0/check_and_fix_geometry@0', 'geometry_step#0/check_and_fix_geometry@1',
               'geometry_step#0/check_and_fix_geometry@2', 'add_new_direction_while_growing#0', 'geometry_step#0/soft_restart',
               'geometry_step#0/move_furthest_points', 'initialise_coordinate_directions#0', 'initialise_coordinate_directions#1',
               'initialise_coordinate_directions#2', 'initialise_random_directions#0', 'initialise_random_directions#1',
               'move_furthest_points_momentum#0', 'soft_restart#0', 'solve_main#0', 'solve_main#1']
SITE_NAMES = {
    'x0': 'starting point (solve_main / hard restart)',
    'geometry_step#0/check_and_fix_geometry@0': 'geometry fix while the point set is growing',
    'geometry_step#0/check_and_fix_geometry@1': 'geometry fix in the safety step',
    'geometry_step#0/check_and_fix_geometry@2': 'geometry fix after an unsuccessful trust-region step',
    'add_new_direction_while_growing#0': 'new direction while the point set is growing',
    'geometry_step#0/soft_restart': 'geometry steps of a soft restart',
    'geometry_step#0/move_furthest_points': 'extra regression steps (geometry type)',
    'initialise_coordinate_directions#0': 'initial coordinate directions, projections branch',
    'initialise_coordinate_directions#1': 'initial coordinate directions, evaluated as a batch (init.run_in_parallel)',
    'initialise_coordinate_directions#2': 'initial coordinate directions, sequential',
    'initialise_random_directions#0': 'initial random directions, evaluated as a batch',
    'initialise_random_directions#1': 'initial random directions, sequential',
    'move_furthest_points_momentum#0': 'extra regression steps (momentum type)',
    'soft_restart#0': 'points added when a soft restart increases npt',
    'solve_main#0': "final 'check the last step and quit' evaluation",
    'solve_main#1': 'trust-region trial step',
}


# unreachable through solve() on the pinned tree, whatever the options
DEAD_SITES = {"initialise_coordinate_directions#1": "solve() rejects init.run_in_parallel without random initial directions "
                                                   "('Parallel initialisation not yet developed for coordinate initial directions')"}


def site_floor(report, tags, exempt=None):
    """Evaluation-site coverage: records which call sites of evaluate_objective were reached under this check's monitors and
    aborts (harness error) if a site that can be reached in this check's configuration space was not - unless the tree's
    site table differs from the one recorded here (then the floor cannot be interpreted and only the table is reported)."""
    exempt = dict(DEAD_SITES, **(exempt or {}))
    have = all_site_ids()
    reached = {t[5:]: n for t, n in tags.items() if t.startswith("site:")}
    cov = report.coverage.setdefault("evaluation_sites", {})
    cov["reached"] = {k: {"executions": reached[k], "what": SITE_NAMES.get(k, "?")} for k in sorted(reached)}
    cov["exempt"] = dict(exempt)
    if sorted(have) != sorted(KNOWN_SITES):
        cov["note"] = "site table of this tree %s differs from the recorded one; floor not applied" % have
        return
    missing = [k for k in KNOWN_SITES if k not in reached and k not in exempt]
    cov["not_reached"] = missing
    if missing:
        raise common.HarnessError("evaluation sites never reached under this check: %s" % missing)


KNOWN_EXITS = ['add_new_direction_while_growing#0', 'calculate_ratio#0', 'calculate_ratio#1', 'choose_point_to_replace#0',
               'evaluate_objective#0', 'evaluate_objective#1', 'evaluate_objective#2', 'geometry_step#0', 'soft_restart#0',
               'soft_restart#1', 'solve_main#0', 'solve_main#1', 'solve_main#2', 'solve_main#3', 'solve_main#4', 'solve_main#5',
               'solve_main#6', 'solve_main#7', 'solve_main#8', 'solve_main#9', 'solve_main#10']
EXIT_NAMES = {
    'add_new_direction_while_growing#0': 'linear algebra error while adding a direction (growing phase)',
    'calculate_ratio#0': 'trust-region step increased the model (warning: several active constraints / radius too small)',
    'calculate_ratio#1': 'trust-region step increased the model (error)',
    'choose_point_to_replace#0': 'linear algebra error when choosing the point to replace',
    'evaluate_objective#0': 'budget reached at an evaluation', 'evaluate_objective#1': 'objective sufficiently small',
    'evaluate_objective#2': 'objective sufficiently small (regularised)',
    'geometry_step#0': 'linear algebra error in a geometry step',
    'soft_restart#0': 'budget reached at a soft restart', 'soft_restart#1': 'maximum number of unsuccessful restarts',
    'solve_main#0': 'budget reached while sampling x0', 'solve_main#1': 'objective sufficiently small at x0',
    'solve_main#2': 'objective sufficiently small at x0 (regularised)', 'solve_main#3': 'all points within noise level',
    'solve_main#4': 'interpolation failed', 'solve_main#5': 'rho reached rhoend (safety step)',
    'solve_main#6': 'NaN in the trust-region step evaluation', 'solve_main#7': 'maximum slow iterations',
    'solve_main#8': 'maximum false successful steps', 'solve_main#9': 'auto-detected restart',
    'solve_main#10': 'rho reached rhoend (after an unsuccessful step)',
}
# exits that need a singular interpolation geometry (coincident / affinely dependent POINTS): the objective's answers cannot
# produce one; they are reached through the declared linear-algebra fault choice points (kind "la", cfgs.linalg_fault_cfgs),
# so nothing is exempt any more
GEOMETRY_EXITS = {}


def exit_floor(report, tags, exempt=None):
    """Exit-site coverage, like site_floor: every place where the tree constructs a run-time ExitInformation must be reached
    under this check's monitors, or be exempted with a reason."""
    exempt = dict(GEOMETRY_EXITS, **(exempt or {}))
    have = all_exit_ids()
    reached = {t[5:]: n for t, n in tags.items() if t.startswith("exit:") and not t.startswith("exit:solve#")}
    cov = report.coverage.setdefault("exit_sites", {})
    cov["reached"] = {k: {"executions": reached[k], "what": EXIT_NAMES.get(k, "?")} for k in sorted(reached)}
    cov["exempt"] = dict(exempt)
    if sorted(have) != sorted(KNOWN_EXITS):
        cov["note"] = "exit table of this tree %s differs from the recorded one; floor not applied" % have
        return
    missing = [k for k in KNOWN_EXITS if k not in reached and k not in exempt]
    cov["not_reached"] = missing
    if missing:
        raise common.HarnessError("exit sites never reached under this check: %s" % missing)


def save_floor(report, tags, exempt=None):
    """Saved-point coverage: every call site of Model.save_point must be reached, and must at least once offer the point that
    is finally returned (the situations in which a slip at that site shows in the result)."""
    exempt = exempt or {}
    have = all_save_ids()
    reached = {t[5:]: n for t, n in tags.items() if t.startswith("save:")}
    asres = {t[15:]: n for t, n in tags.items() if t.startswith("save_is_result:")}
    cov = report.coverage.setdefault("save_point_sites", {})
    cov["reached"] = {k: {"executions": reached[k], "offered_the_returned_point": asres.get(k, 0)} for k in sorted(reached)}
    cov["exempt"] = dict(exempt)
    missing = [k for k in have if (k not in reached or k not in asres) and k not in exempt]
    cov["not_reached_or_never_the_result"] = missing
    if missing:
        raise common.HarnessError("save_point sites never reached, or never offering the returned point, under this check: %s" % missing)


def _ordinal(lines, ln):
    return max([i for i, l in enumerate(lines) if l <= ln] or [0])


def _site_id_from_frame(fr):
    name = fr.f_code.co_name
    lines = _SITE_LINES.get(name)
    if not lines:
        return name + "#?"
    # the call expression may span lines: the site is the last call line at or before the current line
    sid = "%s#%d" % (name, _ordinal(lines, fr.f_lineno))
    if name == "geometry_step":
        up = fr.f_back
        cname = up.f_code.co_name if up is not None else "?"
        if cname == "check_and_fix_geometry" and up.f_back is not None:
            g = _SITE_LINES.get("@fixgeom/" + up.f_back.f_code.co_name)
            cname += "@%d" % _ordinal(g, up.f_back.f_lineno) if g else "@?"
        sid += "/" + cname
    return sid


def install():
    """Wrap the seams once per process.  Idempotent."""
    global _installed, _final_check_line, _trial_line
    if _installed:
        return
    _installed = True
    _SITE_LINES.update(_scan_sites())
    _EXIT_LINES.update(_scan_exits())

    # 0. ExitInformation.__init__: which construction site produced an exit object (coverage tags only)
    orig_exit_init = C.ExitInformation.__init__

    def exit_init(self, flag, msg_details):
        ex = CUR
        if ex is not None:
            fr = sys._getframe(1)
            for _ in range(3):      # a monitor may have wrapped the constructor too: look a few frames up
                if fr is None:
                    break
                lines = _EXIT_LINES.get(fr.f_code.co_name)
                if lines and fr.f_code.co_filename.startswith(common.REPO):
                    ex.tags.add("exit:%s#%d" % (fr.f_code.co_name, _ordinal(lines, fr.f_lineno)))
                    break
                fr = fr.f_back
        return orig_exit_init(self, flag, msg_details)
    C.ExitInformation.__init__ = exit_init

    # locate the two evaluate_objective call sites in solve_main (source order: final check, then trial step)
    try:
        src, start = inspect.getsourcelines(S.solve_main)
        lines = [start + i for i, l in enumerate(src) if "control.evaluate_objective(" in l]
        if len(lines) == 2:
            _final_check_line, _trial_line = lines
    except (OSError, TypeError):
        pass

    # 1. the evaluation seam: carries the solver's own (evaluation number, point number) labels
    orig_eval = U.eval_least_squares_with_regularisation

    def eval_ls(*a, **kw):
        ex = CUR
        if ex is not None:
            ex.label = (kw.get("eval_num"), kw.get("pt_num"))
        return orig_eval(*a, **kw)
    eval_ls.__wrapped__ = orig_eval
    for mod in (U, S, C, M):
        if getattr(mod, "eval_least_squares_with_regularisation", None) is orig_eval:
            setattr(mod, "eval_least_squares_with_regularisation", eval_ls)

    # 2. Controller.evaluate_objective: evaluation site and requested sample count
    orig_eo = C.Controller.evaluate_objective

    def evaluate_objective(self, x, number_of_samples, params):
        ex = CUR
        if ex is None:
            return orig_eo(self, x, number_of_samples, params)
        site = _site_from_frame(sys._getframe(1))
        rec = {"site": site, "site_id": _site_id_from_frame(sys._getframe(1)), "req": int(number_of_samples), "first_call": len(ex.calls) + 1, "nf_before": self.nf,
               "maxfun": self.maxfun}
        ex.eo_stack.append(rec)
        ex.eo_calls.append(rec)
        try:
            res = orig_eo(self, x, number_of_samples, params)
        finally:
            ex.eo_stack.pop()
        rec["ran"] = int(res[2])
        rec["exit"] = None if res[3] is None else (res[3].flag, res[3].msg)
        return res
    C.Controller.evaluate_objective = evaluate_objective

    # 2b. Model.save_point: which call site offered a point to the saved-point slot (coverage tags; and whether the point it
    #     offered is the one finally returned)
    _SAVE_LINES.update(_scan_saves())
    orig_save = M.Model.save_point

    def save_point(self, x, rvec, nsamples, eval_num, x_in_abs_coords=True):
        ex = CUR
        if ex is not None:
            fr = sys._getframe(1)
            lines = _SAVE_LINES.get(fr.f_code.co_name)
            if lines and fr.f_code.co_filename.startswith(common.REPO):
                sid = "%s#%d" % (fr.f_code.co_name, _ordinal(lines, fr.f_lineno))
                ex.tags.add("save:" + sid)
                try:
                    ex.saves.append((sid, int(eval_num), len(ex.controllers)))
                except (TypeError, ValueError):
                    pass
        return orig_save(self, x, rvec, nsamples, eval_num, x_in_abs_coords=x_in_abs_coords)
    M.Model.save_point = save_point

    # 3. Controller.__init__: live controller (radii, model)
    orig_init = C.Controller.__init__

    def ctl_init(self, *a, **kw):
        orig_init(self, *a, **kw)
        ex = CUR
        if ex is not None:
            ex.controllers.append(self)
            ex.run_starts.append(len(ex.calls))
            for mon in ex.monitors:
                mon.on_controller(ex, self)
    C.Controller.__init__ = ctl_init

    # 4. Controller.soft_restart: count restarts really performed
    orig_sr = C.Controller.soft_restart

    def soft_restart(self, *a, **kw):
        ex = CUR
        if ex is not None:
            ex.in_soft_restart += 1
        try:
            r = orig_sr(self, *a, **kw)
        finally:
            if ex is not None:
                ex.in_soft_restart -= 1
        if ex is not None:
            ex.soft_restart_calls += 1
            if r is None:
                ex.soft_restarts += 1
        return r
    C.Controller.soft_restart = soft_restart

    # 5. Model.interpolate_mini_models_svd: once per main-loop iteration -> heartbeat + per-iteration monitors
    orig_fit = M.Model.interpolate_mini_models_svd

    def fit(self, *a, **kw):
        ex = CUR
        if ex is not None and ex.controllers and ex.controllers[-1].model is self:
            ex.heartbeat(self)
        return orig_fit(self, *a, **kw)
    M.Model.interpolate_mini_models_svd = fit

    # 5a. Model.solve_geom_system: the linear-algebra seam.  The package declares its own fault model for it: every caller
    #     chain interpolate_mini_models_svd / geometry_step / choose_point_to_replace wraps it in `except LA.LinAlgError`
    #     (a singular triangular factor).  Objective answers cannot make the point set affinely dependent, so the k-th such
    #     call is a choice point whose non-default answer is "the factor is singular" - raised exactly as SciPy raises it.
    #     Calls from chains that declare no handler (the poisedness diagnostic) are not choice points.
    orig_sgs = M.Model.solve_geom_system

    def solve_geom_system(self, rhs):
        ex = CUR
        if ex is not None:
            fr = sys._getframe(1)
            caller = fr.f_code.co_name
            if caller == "lagrange_gradient" and fr.f_back is not None:
                caller = fr.f_back.f_code.co_name
            if caller in LA_DECLARED:
                j = len(ex.la_calls) + 1
                letter = ex.devs.get(("la", j), "ok")
                ex.la_calls.append({"j": j, "caller": caller, "ncalls": len(ex.calls), "letter": letter})
                ex.tags.add("la_site:" + caller)
                if letter == "singular":
                    ex.tags.add("la_fault:" + caller)
                    import scipy.linalg
                    raise scipy.linalg.LinAlgError("singular matrix: resolution failed at diagonal 0 (injected)")
        return orig_sgs(self, rhs)
    M.Model.solve_geom_system = solve_geom_system

    # 5b. solve_main: one call per run (hard restarts call it again)
    orig_sm = S.solve_main

    def solve_main(*a, **kw):
        ex = CUR
        if ex is not None:
            ex.solve_main_calls += 1
            ex.run_rhoend.append(a[8] if len(a) > 8 else kw.get("rhoend"))
        return orig_sm(*a, **kw)
    solve_main.__wrapped__ = orig_sm
    S.solve_main = solve_main

    # 6. dykstra, as bound in every importing module
    orig_dyk = U.dykstra

    def dykstra(P, x0, max_iter=100, tol=1e-10):
        ex = CUR
        if ex is None or not ex.record_dykstra:
            return orig_dyk(P, x0, max_iter=max_iter, tol=tol)
        cnt = [0]

        def first(x, _p=P[0]):
            cnt[0] += 1
            return _p(x)
        P2 = [first] + list(P[1:]) if len(P) > 0 else P
        out = orig_dyk(P2, x0, max_iter=max_iter, tol=tol)
        ex.dykstra_log.append({"x0": np.array(x0, copy=True), "out": np.array(out, copy=True), "sweeps": cnt[0],
                               "max_iter": max_iter, "tol": tol, "p": len(P), "P": list(P),
                               "caller": sys._getframe(1).f_code.co_name})
        return out
    dykstra.__wrapped__ = orig_dyk
    for mod in (U, S, C, M, T):
        if getattr(mod, "dykstra", None) is orig_dyk:
            setattr(mod, "dykstra", dykstra)


# ------------------------------------------------------------------------------------------------------------------
# answer alphabet
# ------------------------------------------------------------------------------------------------------------------
LA_DECLARED = ("interpolate_mini_models_svd", "geometry_step", "choose_point_to_replace")

FAULT_LETTERS = ("nan", "nan1", "inf", "-inf", "inf1", "1e200", "raise")


def transform(letter, r, best_r):
    """Answer for letter given the true residual r and the best residual vector returned so far (or None)."""
    if letter == "real":
        return r
    if letter == "x0":
        return r * 0.0
    if letter == "x0.3":
        return r * 0.3
    if letter == "x3":
        return r * 3.0
    if letter == "x1e3":
        return r * 1.0e3
    if letter == "tie":
        return r if best_r is None or best_r.shape != r.shape else best_r.copy()
    if letter == "negtie":
        return r if best_r is None or best_r.shape != r.shape else -best_r
    if letter == "best":
        return r * 0.5 if best_r is None or best_r.shape != r.shape else best_r * 0.7
    if letter == "nan":
        return r * np.nan
    if letter == "nan1":
        out = r.copy()
        out[0] = np.nan
        return out
    if letter == "inf":
        return np.full(r.shape, np.inf)
    if letter == "-inf":
        return np.full(r.shape, -np.inf)
    if letter == "inf1":
        out = r.copy()
        out[-1] = np.inf
        return out
    if letter == "1e200":
        return np.full(r.shape, 1.0e200)
    if letter == "raise":
        return None
    raise ValueError("unknown letter %r" % letter)


NS_SPECS = {
    None: None,
    "const1": lambda delta, rho, it, nruns: 1,
    "const2": lambda delta, rho, it, nruns: 2,
    "const3": lambda delta, rho, it, nruns: 3,
    "iter%3+1": lambda delta, rho, it, nruns: it % 3 + 1,
    "nruns+1": lambda delta, rho, it, nruns: nruns + 1,
    "const0": lambda delta, rho, it, nruns: 0,
}

# fixed RNG answer menus: deterministic streams that differ maximally from one another
_RNG_MENUS = {}


def _rng_menu(i):
    if i not in _RNG_MENUS:
        _RNG_MENUS[i] = np.random.RandomState(1000 + 7919 * i)
    return _RNG_MENUS[i]


class Monitor(object):
    def start(self, ex):
        pass

    def on_call(self, ex, call):
        pass

    def on_controller(self, ex, control):
        pass

    def on_iter(self, ex, model):
        pass

    def on_end(self, ex):
        pass


class Execution(object):
    """One run of dfols.solve under an owned environment."""

    def __init__(self, cfg, devs=(), monitors=(), record_dykstra=False, keep=False):
        self.cfg = cfg
        self.devs = {}
        for d in devs:
            kind, k, letter = d
            self.devs[(kind, int(k))] = letter
        self.monitors = list(monitors)
        self.record_dykstra = record_dykstra or bool(cfg.get("record_dykstra"))
        self.keep = keep
        self.calls = []
        self.ns_calls = []
        self.rng_calls = []
        self.la_calls = []
        self.eo_calls = []
        self.eo_stack = []
        self.controllers = []
        self.run_starts = []
        self.dykstra_log = []
        self.soft_restarts = 0
        self.solve_main_calls = 0
        self.run_rhoend = []
        self.soft_restart_calls = 0
        self.in_soft_restart = 0
        self.label = None
        self.memo = {}
        self.best_r = None
        self.best_f = None
        self.viol = []
        self.tags = set()
        self.saves = []
        self.hb_state = None
        self.hb_same = 0
        self.iters = 0
        self.outcome = None
        self.soln = None
        self.exc = None
        self.exc_tb = None
        self.user_exc = UserRaise("injected failure inside objfun")
        self.prefix_hashes = []
        self._h = hashlib.sha1()
        self.user_snapshots = None

    # -------- violations / tags
    def violate(self, clause, detail):
        self.viol.append((clause, detail))

    # -------- environment: residual function
    def objfun(self, x, *args):
        k = len(self.calls) + 1
        label, self.label = self.label, None
        xc = np.array(x, dtype=float, copy=True)
        key = xc.tobytes()
        memo = self.cfg.get("memo", True)
        letter = self.devs.get(("obj", k), "real")
        if self.cfg.get("all_letter") and letter == "real":
            letter = self.cfg["all_letter"]
        r_true = None
        if memo and key in self.memo:
            letter_used = "memo"
            r_ret = self.memo[key]
            r_ret = None if r_ret is None else r_ret.copy()
        else:
            r_true = self.f(xc)
            amp = self.cfg.get("noise_amp")
            if amp:      # deterministic pseudo-noise indexed by the call number (so that repeated samples differ)
                r_true = r_true * (1.0 + amp * np.cos(1.7 * k + 0.3 * np.arange(len(r_true))))
            r_ret = transform(letter, r_true, self.best_r)
            letter_used = letter
            if memo:
                self.memo[key] = None if r_ret is None else r_ret.copy()
        site = self.eo_stack[-1]["site"] if self.eo_stack else "x0"
        self.tags.add("site:" + (self.eo_stack[-1]["site_id"] if self.eo_stack else "x0"))
        call = {"k": k, "x": xc, "r": None if r_ret is None else r_ret.copy(), "letter": letter_used,
                "eval_num": None if label is None else label[0], "pt_num": None if label is None else label[1],
                "site": site, "args": args, "run": len(self.controllers), "in_sr": self.in_soft_restart > 0}
        if r_ret is not None:
            f = float(np.dot(r_ret, r_ret))
            if self.reg is not None:
                f = f + float(bank.h_value(self.cfg["reg"], xc))
            call["f"] = f
            if np.isfinite(f) and (self.best_f is None or f < self.best_f):
                self.best_f = f
                self.best_r = r_ret.copy()
        else:
            call["f"] = None
        self.calls.append(call)
        self._h.update(key)
        self._h.update(b"|" if r_ret is None else r_ret.tobytes())
        self.prefix_hashes.append(self._h.hexdigest())
        for mon in self.monitors:
            mon.on_call(self, call)
        if r_ret is None:
            raise self.user_exc
        return r_ret.copy()

    # -------- environment: nsamples callback
    def nsamples(self, delta, rho, it, nruns):
        j = len(self.ns_calls) + 1
        base = NS_SPECS[self.cfg["nsamples"]](delta, rho, it, nruns)
        ans = self.devs.get(("ns", j), base)
        self.ns_calls.append({"j": j, "args": (delta, rho, it, nruns), "ans": ans, "ncalls": len(self.calls)})
        return ans

    # -------- environment: numpy global RNG
    def _rng_normal(self, loc=0.0, scale=1.0, size=None):
        i = len(self.rng_calls) + 1
        menu = self.devs.get(("rng", i), self.cfg.get("rng_menu", 0))
        out = _rng_menu_draw(menu, i, "normal", size)
        self.rng_calls.append({"i": i, "fn": "normal", "size": size, "menu": menu})
        return loc + scale * out

    def _rng_randint(self, low, high=None, size=None, dtype=int):
        i = len(self.rng_calls) + 1
        menu = self.devs.get(("rng", i), self.cfg.get("rng_menu", 0))
        if high is None:
            low, high = 0, low
        u = _rng_menu_draw(menu, i, "uniform", size)
        out = (low + np.floor(u * (high - low))).astype(int) if size is not None else int(low + np.floor(u * (high - low)))
        self.rng_calls.append({"i": i, "fn": "randint", "size": size, "menu": menu})
        return out

    def _rng_seed(self, *a, **kw):
        self.rng_calls.append({"i": len(self.rng_calls) + 1, "fn": "seed", "size": None, "menu": None})

    # -------- heartbeat (top of every main-loop iteration)
    def heartbeat(self, model):
        self.iters += 1
        c = self.controllers[-1]
        state = (len(self.calls), c.rho, c.delta, model.npt(), len(self.controllers), self.soft_restarts)
        if state == self.hb_state:
            self.hb_same += 1
            if self.hb_same > WATCHDOG_W:
                raise Livelock("main loop made %d iterations without an evaluation or a change of rho/delta "
                               "(rho=%g delta=%g nf=%d)" % (self.hb_same, c.rho, c.delta, len(self.calls)))
        else:
            self.hb_state = state
            self.hb_same = 0
        for mon in self.monitors:
            mon.on_iter(self, model)

    # -------- build arguments and run
    def build_args(self):
        cfg = self.cfg
        self.f, n, m = bank.make_problem(cfg["prob"])
        self.n, self.m = n, m
        x0 = np.array(cfg["x0"], dtype=float)
        kw = {}
        lo, hi = cfg.get("lo"), cfg.get("hi")
        # None = the documented 'no bound' value 1e20; the string "inf" = an infinite entry (SciPy-style one-sided bounds, which
        # solve() accepts and treats like 1e20)
        self.lo = None if lo is None else np.array([-1e20 if v is None else (-np.inf if v == "inf" else v) for v in lo], dtype=float)
        self.hi = None if hi is None else np.array([1e20 if v is None else (np.inf if v == "inf" else v) for v in hi], dtype=float)
        if lo is not None or hi is not None:
            kw["bounds"] = (self.lo, self.hi)
        for key in ("npt", "rhobeg", "rhoend", "maxfun"):
            if cfg.get(key) is not None:
                kw[key] = cfg[key]
        if cfg.get("nsamples") is not None:
            kw["nsamples"] = self.nsamples
        self.user_params = None
        if cfg.get("user_params") is not None:
            self.user_params = dict(cfg["user_params"])
            kw["user_params"] = self.user_params
        if cfg.get("objfun_has_noise"):
            kw["objfun_has_noise"] = True
        if cfg.get("scaling"):
            kw["scaling_within_bounds"] = True
        self.sets = [bank.CSet(s) for s in cfg.get("sets", [])]
        if self.sets:
            kw["projections"] = [s.proj for s in self.sets]
        self.reg = None
        if cfg.get("reg") is not None:
            h, prox, lh, argsh, argsprox, log = bank.make_reg(cfg["reg"], n)
            self.reg = {"h": h, "prox": prox, "lh": lh, "argsh": argsh, "argsprox": argsprox, "log": log}
            kw.update(h=h, prox_uh=prox, lh=lh, argsh=argsh, argsprox=argsprox)
        if cfg.get("argsf") is not None:
            kw["argsf"] = tuple(cfg["argsf"])
        kw["do_logging"] = bool(cfg.get("do_logging", False))
        self.x0 = x0
        self.kw = kw
        return x0, kw

    def run(self):
        global CUR
        install()
        x0, kw = self.build_args()
        # caller-side snapshots (C19)
        self.user_snapshots = {
            "x0": x0.copy(), "lo": None if self.lo is None else self.lo.copy(),
            "hi": None if self.hi is None else self.hi.copy(),
            "user_params": None if self.user_params is None else dict(self.user_params)}
        for mon in self.monitors:
            mon.start(self)
        saved = (np.random.normal, np.random.randint, np.random.seed)
        own_rng = self.cfg.get("own_rng", True)
        if own_rng:
            np.random.normal, np.random.randint, np.random.seed = self._rng_normal, self._rng_randint, self._rng_seed

        # the horizon is measured in CPU time of this process (ITIMER_PROF), not wall-clock time: a loaded machine must not
        # turn a slow but terminating execution into a false 'did not terminate'
        def on_alarm(signum, frame):
            raise Timeout("execution exceeded %.0f s of CPU time" % EXEC_TIMEOUT)
        old_handler = signal.signal(signal.SIGPROF, on_alarm)
        signal.setitimer(signal.ITIMER_PROF, EXEC_TIMEOUT)
        CUR = self
        try:
            try:
                self.soln = dfols.solve(self.objfun, x0, **kw)
                self.outcome = "returned"
                try:
                    k = int(self.soln.xmin_eval_num)
                    for sid, ev, run in self.saves:
                        if ev == k:
                            self.tags.add("save_is_result:" + sid)
                except (TypeError, ValueError, AttributeError):
                    pass
            except Livelock as e:
                self.outcome, self.exc = "livelock", e
            except Timeout as e:
                self.outcome, self.exc = "timeout", e
            except Exception as e:      # noqa: BLE001 - whatever solve raises is an observation
                self.outcome, self.exc = "raised", e
                self.exc_tb = traceback.format_exc(limit=6)
        finally:
            CUR = None
            signal.setitimer(signal.ITIMER_PROF, 0)
            signal.signal(signal.SIGPROF, old_handler)
            if own_rng:
                np.random.normal, np.random.randint, np.random.seed = saved
        if self.outcome in ("livelock", "timeout"):
            self.violate("termination", "%s: %s" % (self.outcome, self.exc))
        for mon in self.monitors:
            mon.on_end(self)
        return self

    # -------- summaries
    def fingerprint(self):
        h = hashlib.sha1()
        h.update((self.prefix_hashes[-1] if self.prefix_hashes else "").encode())
        h.update(self.outcome.encode())
        s = self.soln
        if s is not None:
            for a in (s.x, s.resid, s.jacobian, s.jacmin_eval_nums):
                h.update(b"N" if a is None else np.asarray(a).tobytes())
            h.update(repr((s.obj, s.nf, s.nx, s.nruns, s.flag, s.msg, s.xmin_eval_num)).encode())
        elif self.exc is not None:
            h.update(repr(type(self.exc).__name__).encode())
        return h.hexdigest()

    def signature(self):
        s = self.soln
        last_site = self.calls[-1]["site"] if self.calls else "-"
        if s is not None:
            return (self.outcome, int(s.flag), str(s.msg), int(s.nruns) if s.nruns is not None else -1, last_site)
        return (self.outcome, type(self.exc).__name__, "", -1, last_site)

    def summary(self):
        return {"devs": [[k[0], k[1], v] for k, v in sorted(self.devs.items())], "ncalls": len(self.calls),
                "n_ns": len(self.ns_calls), "n_rng": len(self.rng_calls), "n_la": len(self.la_calls),
                "memo_calls": [c["k"] for c in self.calls if c["letter"] == "memo"],
                "sig": self.signature(), "viol": list(self.viol), "tags": sorted(self.tags),
                "fp": self.fingerprint(), "prefix_hashes": list(self.prefix_hashes), "iters": self.iters}

    def describe(self):
        s = self.soln
        d = {"outcome": self.outcome, "ncalls": len(self.calls), "iters": self.iters,
             "sites": [c["site"] for c in self.calls][-8:]}
        if s is not None:
            d.update(flag=s.flag, msg=s.msg, nf=s.nf, nx=s.nx, nruns=s.nruns, obj=s.obj,
                     x=None if s.x is None else s.x.tolist(), xmin_eval_num=s.xmin_eval_num)
        elif self.exc is not None:
            d.update(exc="%s: %s" % (type(self.exc).__name__, self.exc))
        return d


def _rng_menu_draw(menu, i, kind, size):
    """Deterministic answer for draw number i from menu `menu` (independent of draw history)."""
    rs = np.random.RandomState((1000003 * (int(menu) + 1) + 7919 * i) % (2 ** 31))
    if kind == "normal":
        return rs.normal(size=size)
    return rs.uniform(size=size)


# ------------------------------------------------------------------------------------------------------------------
# the explorer
# ------------------------------------------------------------------------------------------------------------------
def run_one(modname, cfg, devs, keep=False):
    mod = __import__("vf.props." + modname, fromlist=["x"])
    ex = Execution(cfg, devs, monitors=mod.monitors(cfg), keep=keep)
    ex.run()
    return ex


def _choice_points(summ, plan, after):
    """Yield the single deviations available below an execution with summary `summ`, at choice points ordered after
    `after` = (kind_rank, k) of the last deviation already taken."""
    memo = set(summ["memo_calls"])
    kmax = plan.get("kmax")
    out = []
    for k in range(1, summ["ncalls"] + 1):
        if kmax is not None and k > kmax:
            break
        if plan.get("only_last") and k != summ["ncalls"]:
            continue     # budget-end rows: only the last evaluation the budget allows is a choice point
        if k in memo:
            continue     # a repeated x gets the memoised answer: not a choice point
        for letter in plan.get("letters", ()):
            if k == 1 and letter in ("tie", "negtie"):
                continue  # no incumbent yet: identical to the default answer
            out.append(("obj", k, letter))
    for j in range(1, summ["n_ns"] + 1):
        for a in plan.get("ns_letters", ()):
            out.append(("ns", j, a))
    for i in range(1, summ["n_rng"] + 1):
        for a in plan.get("rng_letters", ()):
            out.append(("rng", i, a))
    for j in range(1, summ.get("n_la", 0) + 1):
        for a in plan.get("la_letters", ()):
            out.append(("la", j, a))
    if after is not None:
        out = [d for d in out if _order(d) > after]
    return out


_KIND_RANK = {"obj": 0, "ns": 1, "rng": 2, "la": 3}


def _order(d):
    # deviations are ordered by (kind, index); a second deviation must come later in this order
    return (_KIND_RANK[d[0]], d[1])


def explore_task(task):
    """Worker.  task = (modname, cfg, plan, prefix, children, parent_hashes, keep_hashes)
    children is None  -> run the execution `prefix` itself;
    children is a list -> run prefix+[d] for every d in it and check that everything before the new deviation is
    byte-identical to the parent execution (parent_hashes)."""
    modname, cfg, plan, prefix, children, parent_hashes, keep_hashes = task
    out = []
    try:
        if children is None:
            ex = run_one(modname, cfg, prefix)
            summ = ex.summary()
            out.append(summ)
        else:
            for d in children:
                devs = list(prefix) + [d]
                ch = run_one(modname, cfg, devs)
                cs = ch.summary()
                if d[0] == "obj" and parent_hashes is not None:
                    kk = d[1] - 1
                    if kk >= 1 and (len(cs["prefix_hashes"]) < kk or cs["prefix_hashes"][kk - 1] != parent_hashes[kk - 1]):
                        return {"error": "prefix divergence below %r at %r (cfg=%r)" % (prefix, d, cfg)}
                if not keep_hashes:
                    cs["prefix_hashes"] = None
                out.append(cs)
        return {"cfg": cfg, "prefix": prefix, "execs": out}
    except HarnessError as e:
        return {"error": str(e)}
    except Exception:  # noqa: BLE001
        return {"error": "harness exception in worker: " + traceback.format_exc(limit=8) + " cfg=%r prefix=%r" % (cfg, prefix)}


CHUNK = 16


def _chunks(lst, n):
    for i in range(0, len(lst), n):
        yield lst[i:i + n]


def explore(report, modname, cfg_plans, classify=None, recheck=8):
    """Run the deviation-bounded exploration for all (cfg, plan) pairs and fill `report`.

    plan: {"depth": 0|1|2, "letters": [...], "ns_letters": [...], "rng_letters": [...], "kmax": int|None}
    """
    install()
    cfg_plans = list(cfg_plans)
    n_exec = 0
    sigs = {}
    tags = {}
    letters_used = {}
    samples = []
    depth_done = {}
    viol_raw = []
    errors = []
    max_calls = 0
    n_choice = 0
    plans = {common.sha(cfg): plan for cfg, plan in cfg_plans}
    level_out = {0: [], 1: []}   # summaries that may need children: (cfg, summ)

    def absorb(res, level):
        nonlocal n_exec, max_calls, n_choice
        if "error" in res:
            errors.append(res["error"])
            return
        cfg = res["cfg"]
        plan = plans[common.sha(cfg)]
        for s in res["execs"]:
            n_exec += 1
            d = len(s["devs"])
            depth_done[d] = depth_done.get(d, 0) + 1
            sigs[tuple(s["sig"])] = sigs.get(tuple(s["sig"]), 0) + 1
            for t in s["tags"]:
                tags[t] = tags.get(t, 0) + 1
            for dv in s["devs"]:
                letters_used[str(dv[2])] = letters_used.get(str(dv[2]), 0) + 1
            max_calls = max(max_calls, s["ncalls"])
            n_choice += s["ncalls"] + s["n_ns"] + s["n_rng"] + (s.get("n_la", 0) if plan.get("la_letters") else 0)
            for clause, detail in s["viol"]:
                viol_raw.append((clause, detail, cfg, s["devs"]))
            if len(samples) < 3 and (n_exec in (1, 2) or d > 0 or s["viol"]):
                samples.append({"cfg": cfg, "devs": s["devs"], "outcome": list(s["sig"]), "ncalls": s["ncalls"]})
            if plan.get("depth", 0) > level:
                level_out[level].append((cfg, s))

    tasks = [(modname, cfg, plan, [], None, None, True) for cfg, plan in cfg_plans]
    for res in common.pool_map(explore_task, tasks, chunksize=4 if len(tasks) > 2000 else 1):
        absorb(res, 0)
    for level in (0, 1):
        if errors:
            break
        tasks = []
        for cfg, s in level_out[level]:
            plan = plans[common.sha(cfg)]
            prefix = [tuple(d) for d in s["devs"]]
            after = _order(prefix[-1]) if prefix else None
            cps = _choice_points(s, plan, after)
            for ch in _chunks(cps, CHUNK):
                tasks.append((modname, cfg, plan, prefix, ch, s["prefix_hashes"], plan.get("depth", 0) > level + 1))
        for res in common.pool_map(explore_task, tasks):
            absorb(res, level + 1)
    if errors:
        raise HarnessError("; ".join(errors[:3]))

    # cross-process reproducibility: re-run a fixed subset in this (different) process and compare fingerprints
    n_re = 0
    if recheck:
        sub = cfg_plans[:: max(1, len(cfg_plans) // recheck)][:recheck]
        got = {}
        for res in common.pool_map(explore_task, [(modname, cfg, plan, [], None, None, False) for cfg, plan in sub]):
            if "error" in res:
                raise HarnessError(res["error"])
            got[common.sha(res["cfg"])] = res["execs"][0]["fp"]
        for cfg, plan in sub:
            ex = run_one(modname, cfg, [])
            if ex.fingerprint() != got[common.sha(cfg)]:
                raise HarnessError("execution is not reproducible across processes: cfg=%r" % (cfg,))
            n_re += 1

    # violations: confirm each distinct one by replaying it here before it is reported
    seen = set()
    n_confirm = 0
    for clause, detail, cfg, devs in viol_raw:
        key = common.sha([clause, cfg, devs])
        tg = classify(cfg, clause, detail) if classify else {}
        if key not in seen and n_confirm < 25:
            seen.add(key)
            n_confirm += 1
            ex = run_one(modname, cfg, devs)
            if clause not in [c for c, _ in ex.viol]:
                raise HarnessError("violation did not reproduce on replay: %s %s cfg=%r devs=%r" % (clause, detail, cfg, devs))
        report.add_violation(clause, detail, {"engine": "solvex", "module": modname, "cfg": cfg, "devs": devs}, tg)

    cov = report.coverage
    cov["evaluations"] = cov.get("evaluations", 0) + n_exec
    cov["configurations"] = cov.get("configurations", 0) + len(cfg_plans)
    cov["executions_by_deviation_count"] = {str(k): v for k, v in sorted(depth_done.items()) if v}
    cov["distinct_outcomes"] = len(sigs)
    cov["outcomes"] = sorted(["%s x%d" % ("|".join(str(p) for p in k), v) for k, v in sigs.items()])[:60]
    cov["tags"] = dict(sorted(tags.items()))
    cov["letters_used"] = letters_used
    cov["choice_points_total"] = n_choice
    cov["max_calls_in_one_execution"] = max_calls
    cov["reproducibility_rechecks"] = n_re
    cov["violations_confirmed_by_replay"] = n_confirm
    cov["samples"] = samples
    cov["exhaustive"] = True
    return {"sigs": sigs, "tags": tags, "n_exec": n_exec}


def replay(rep, verbose=True):
    """Re-execute one recorded execution without the explorer."""
    ex = run_one(rep["module"], rep["cfg"], rep["devs"], keep=True)
    if verbose:
        print("cfg  =", common.jsonable(rep["cfg"]))
        print("devs =", rep["devs"])
        print("observed:", common.jsonable(ex.describe()))
        for c in ex.calls[-6:]:
            print("   call %d eval=%s pt=%s site=%s letter=%s x=%s f=%s" % (
                c["k"], c["eval_num"], c["pt_num"], c["site"], c["letter"], c["x"].tolist(), c["f"]))
        for clause, detail in ex.viol:
            print("  VIOLATED clause=%s: %s" % (clause, detail))
    return ex
