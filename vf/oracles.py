"""Exact small-dimension oracles (independent of the code under test)."""
import itertools
import numpy as np


def lin_bank(m, n, cond, idx=0, salt=0):
    """A (m x n) with prescribed singular values (cond = s_max/s_min) and fixed orthogonal factors; b; all deterministic."""
    k = min(m, n)
    T1 = np.cos(np.outer(np.arange(1, m + 1), np.arange(1, m + 1)) * (0.61 + 0.07 * idx + 0.013 * salt)) + np.eye(m)
    T2 = np.sin(np.outer(np.arange(1, n + 1), np.arange(1, n + 1)) * (0.83 + 0.05 * idx)) + 1.5 * np.eye(n)
    U = np.linalg.qr(T1)[0][:, :k]
    V = np.linalg.qr(T2)[0][:, :k]
    s = np.logspace(0.0, np.log10(cond), k)[::-1] if k > 1 else np.array([1.0])
    A = (U * s).dot(V.T)
    b = np.sin(1.3 * np.arange(1, m + 1) + idx) * (1.0 + 0.3 * idx) + 0.1 * salt
    return A, b


def bounded_lsq_enum(A, b, lo, hi):
    """min ||Ax-b||^2 s.t. lo<=x<=hi by enumeration of all active sets (exact for full column rank, small n)."""
    m, n = A.shape
    best = None
    choices = []
    for j in range(n):
        c = ["free"]
        if lo[j] > -1e19:
            c.append("lo")
        if hi[j] < 1e19:
            c.append("hi")
        choices.append(c)
    for assign in itertools.product(*choices):
        x = np.zeros(n)
        free = [j for j in range(n) if assign[j] == "free"]
        for j in range(n):
            if assign[j] == "lo":
                x[j] = lo[j]
            elif assign[j] == "hi":
                x[j] = hi[j]
        if free:
            rhs = b - A.dot(x)
            xf = np.linalg.lstsq(A[:, free], rhs, rcond=None)[0]
            x[free] = xf
        if np.any(x < lo - 1e-12) or np.any(x > hi + 1e-12):
            continue
        x = np.minimum(np.maximum(x, lo), hi)
        r = A.dot(x) - b
        f = float(r.dot(r))
        if best is None or f < best[0]:
            best = (f, x.copy())
    return best


def bounded_lsq_scipy(A, b, lo, hi):
    from scipy.optimize import lsq_linear
    res = lsq_linear(A, b, bounds=(np.where(lo < -1e19, -np.inf, lo), np.where(hi > 1e19, np.inf, hi)), method="bvls",
                     tol=1e-14, max_iter=500)
    r = A.dot(res.x) - b
    return float(r.dot(r)), res.x


def lasso_box_enum(A, b, lam, lo, hi):
    """min ||Ax-b||^2 + lam*||x||_1 s.t. lo<=x<=hi, exact by enumeration of sign / active patterns (full column rank).

    Each coordinate is in one of: positive (free, sign +), negative (free, sign -), zero, at lower, at upper.  For a
    pattern the stationarity system on the free coordinates is linear; a candidate is kept when it is consistent with
    its pattern and feasible; the minimum over candidates is the global minimum because the problem is convex and the
    optimum satisfies exactly one such pattern."""
    m, n = A.shape
    best = None
    choices = []
    for j in range(n):
        c = []
        if hi[j] > 0:
            c.append("pos")
        if lo[j] < 0:
            c.append("neg")
        if lo[j] <= 0 <= hi[j]:
            c.append("zero")
        if lo[j] > -1e19:
            c.append("lo")
        if hi[j] < 1e19:
            c.append("hi")
        choices.append(c)
    AtA = A.T.dot(A)
    Atb = A.T.dot(b)
    for assign in itertools.product(*choices):
        x = np.zeros(n)
        free = [j for j in range(n) if assign[j] in ("pos", "neg")]
        for j in range(n):
            if assign[j] == "lo":
                x[j] = lo[j]
            elif assign[j] == "hi":
                x[j] = hi[j]
        if free:
            sgn = np.array([1.0 if assign[j] == "pos" else -1.0 for j in free])
            fixed = [j for j in range(n) if j not in free]
            rhs = 2.0 * Atb[free] - lam * sgn
            if fixed:
                rhs = rhs - 2.0 * AtA[np.ix_(free, fixed)].dot(x[fixed])
            try:
                xf = np.linalg.solve(2.0 * AtA[np.ix_(free, free)], rhs)
            except np.linalg.LinAlgError:
                continue
            if np.any(xf * sgn < -1e-12):
                continue
            x[free] = xf
        if np.any(x < lo - 1e-12) or np.any(x > hi + 1e-12):
            continue
        x = np.minimum(np.maximum(x, lo), hi)
        r = A.dot(x) - b
        f = float(r.dot(r)) + lam * float(np.sum(np.abs(x)))
        if best is None or f < best[0]:
            best = (f, x.copy())
    return best


def prox_grad_reference(A, b, reg, lam, lo, hi, iters=200000, tol=1e-15):
    """FISTA with exact prox of h + box indicator handled by Dykstra-free splitting: we use projected proximal
    gradient on F(x) = ||Ax-b||^2 + h(x) with the prox of (h + box) computed coordinate-wise for L1 and by
    bisection for the L2 norm.  Only used where it is exact: L1 (separable) and L2-norm without active bounds."""
    n = A.shape[1]
    L = 2.0 * np.linalg.norm(A, 2) ** 2
    x = np.minimum(np.maximum(np.zeros(n), lo), hi)
    y = x.copy()
    t = 1.0

    def prox(z, u):
        if reg == "l1":
            w = np.sign(z) * np.maximum(np.abs(z) - lam * u, 0.0)
            return np.minimum(np.maximum(w, lo), hi)     # separable: prox of |.|+box = clip(soft-threshold)
        nz = np.sqrt(z.dot(z))
        w = z * max(0.0, 1.0 - lam * u / nz) if nz > 0 else z.copy()
        return np.minimum(np.maximum(w, lo), hi)

    def F(z):
        r = A.dot(z) - b
        hv = lam * (np.sum(np.abs(z)) if reg == "l1" else np.sqrt(z.dot(z)))
        return float(r.dot(r)) + float(hv)
    for k in range(iters):
        g = 2.0 * A.T.dot(A.dot(y) - b)
        xn = prox(y - g / L, 1.0 / L)
        tn = 0.5 * (1.0 + np.sqrt(1.0 + 4.0 * t * t))
        y = xn + ((t - 1.0) / tn) * (xn - x)
        if np.max(np.abs(xn - x)) <= tol * max(1.0, float(np.max(np.abs(xn)))) and k > 10:
            x = xn
            break
        x, t = xn, tn
    return F(x), x
