"""Iteration-path coverage of the numerical kernels (used to BUILD and to REPORT ON the frozen path banks, never to decide).

The kernels are loops of the form `for .. in range(MAX_LOOP_ITERS)` (Powell's labelled gotos).  A call is traced with
sys.monitoring LINE events restricted to the chosen functions; the trace is cut at every visit of such a loop head into
*iteration events* (loop head, set of lines executed in that iteration).  Coverage items of a call are
  * every iteration event, and
  * every ORDERED PAIR (earlier, later) of iteration events of the same loop inside the same iteration of the enclosing
    loop (a state left behind by an earlier iteration and consumed by a later one shows up as such a pair), and
  * every pair of consecutive iteration events of any loops (hand-over between phases).
Items are hashed together with the function name, so they are comparable only on the same source text.
"""
import ast
import sys
import hashlib
import inspect


def loop_heads(func):
    src, first = inspect.getsourcelines(func)
    tree = ast.parse("".join(src).lstrip() if src[0][0] in " \t" else "".join(src))
    heads = set()
    for node in ast.walk(tree):
        if isinstance(node, ast.For) and isinstance(node.iter, ast.Call) and getattr(node.iter.func, "id", "") == "range" \
                and any(isinstance(a, ast.Name) and a.id == "MAX_LOOP_ITERS" for a in node.iter.args):
            heads.add(node.lineno + first - 1)
    return heads


class Tracer(object):
    def __init__(self, funcs):
        self.funcs = list(funcs)
        self.codes = {f.__code__: f.__name__ for f in self.funcs}
        self.heads = {}
        for f in self.funcs:
            for h in loop_heads(f):
                self.heads[(f.__code__, h)] = True
        self.trace = []
        self.mon = sys.monitoring
        self.tool = self.mon.DEBUGGER_ID

    def __enter__(self):
        m = self.mon
        m.use_tool_id(self.tool, "verif-pathcov")
        m.register_callback(self.tool, m.events.LINE, self._line)
        for c in self.codes:
            m.set_local_events(self.tool, c, m.events.LINE)
        return self

    def __exit__(self, *a):
        m = self.mon
        for c in self.codes:
            m.set_local_events(self.tool, c, 0)
        m.register_callback(self.tool, m.events.LINE, None)
        m.free_tool_id(self.tool)

    def _line(self, code, line):
        self.trace.append((code, line))

    def run(self, fn, *args, **kw):
        del self.trace[:]
        r = fn(*args, **kw)
        return r, self.items()

    def items(self):
        """Cut the trace into iteration events and derive the coverage items."""
        events = []       # (loop key, depth, frozenset(lines))
        stack = []        # open loops: [key, lines-set]
        order = {}
        for code, line in self.trace:
            key = (self.codes[code], line)
            if (code, line) in self.heads:
                # close every loop opened after this head's previous visit (they are nested inside it)
                if key in [s[0] for s in stack]:
                    while stack[-1][0] != key:
                        k, ls = stack.pop()
                        events.append((k, len(stack), frozenset(ls)))
                    k, ls = stack.pop()
                    events.append((k, len(stack), frozenset(ls)))
                stack.append([key, set()])
                order.setdefault(key, len(order))
            elif stack:
                stack[-1][1].add(key)
        while stack:
            k, ls = stack.pop()
            events.append((k, len(stack), frozenset(ls)))
        # events are emitted when an iteration CLOSES; an inner loop's iterations therefore precede the enclosing
        # iteration's own event, which is what delimits "the same iteration of the enclosing loop"
        out = set()
        ids = [_h((k, sorted(ls))) for (k, dep, ls) in events]
        for i in ids:
            out.add("1:" + i)
        for a, b in zip(ids, ids[1:]):
            out.add("c:" + a + ">" + b)
        group = {}
        for (k, dep, ls), i in zip(events, ids):
            # an event of smaller depth closes the groups of every deeper loop
            for kk in [kk for kk in group if kk[1] > dep]:
                del group[kk]
            g = group.setdefault((k, dep), [])
            for a in g:
                out.add("p:" + a + ">" + i)
            if i not in g:
                g.append(i)
        return out


def _h(o):
    return hashlib.sha1(repr(o).encode()).hexdigest()[:10]


def source_sha():
    """Identifies the text of the traced kernels: path items are comparable only on identical source."""
    from dfols import trust_region
    return hashlib.sha1((inspect.getsource(trust_region.trsbox) + inspect.getsource(trust_region.alt_trust_step)).encode()).hexdigest()[:16]


def trace_bank(cases):
    """(worker) items covered by a list of explicit trsbox cases."""
    import numpy as np
    from dfols.trust_region import trsbox, alt_trust_step
    out = set()
    with Tracer([trsbox, alt_trust_step]) as tr:
        for c in cases:
            n = c["n"]
            try:
                _, items = tr.run(trsbox, np.array(c["xopt"], dtype=float), np.array(c["g"], dtype=float),
                                  np.array(c["H"], dtype=float).reshape(n, n), np.array(c["sl"], dtype=float),
                                  np.array(c["su"], dtype=float), float(c["delta"]))
            except Exception as e:  # noqa: BLE001
                items = {"raise:" + type(e).__name__}
            out |= items
    return sorted(out)
