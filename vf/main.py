"""./check <ID> [--tier quick|thorough] [--replay PATH]   |   ./check --selftest   |   ./check --list"""
import os
import sys
import json
import argparse
import importlib
import traceback

from . import common
from .common import HarnessError

ALL = ["C%02d" % i for i in range(1, 21)]


def main(argv=None):
    ap = argparse.ArgumentParser()
    ap.add_argument("prop", nargs="?")
    ap.add_argument("--tier", default=os.environ.get("VERIF_TIER", "quick"), choices=["quick", "thorough"])
    ap.add_argument("--replay")
    ap.add_argument("--selftest", action="store_true")
    ap.add_argument("--list", action="store_true")
    args = ap.parse_args(argv)

    if args.list:
        for p in ALL:
            try:
                importlib.import_module("vf.props." + p)
                print(p, "available")
            except ImportError:
                print(p, "missing")
        return 0
    if args.selftest:
        from . import selftest
        return selftest.run()
    if not args.prop:
        ap.error("property id required")
    prop = args.prop.upper()
    try:
        mod = importlib.import_module("vf.props." + prop)
    except ImportError:
        print("no check for %s: %s" % (prop, traceback.format_exc(limit=2)))
        return 2
    seed = common.seed_from_env()
    try:
        if args.replay:
            with open(args.replay) as f:
                rep = json.load(f)
            return mod.replay(rep["replay"] if "replay" in rep else rep)
        report = common.Report(prop, args.tier, seed, mod.LEVEL)
        try:
            mod.run(report, args.tier, seed)
        except HarnessError as e:
            if not report.violations:
                raise
            # violations were found before the harness complained (typically a vacuity floor that the broken code
            # itself made unreachable): the violations are what matters
            print("harness note (suppressed because violations were found): %s" % e)
            report.coverage.setdefault("evaluations", 1)
            report.coverage.setdefault("distinct_nontrivial", 2)
            report.coverage.setdefault("rule", "run aborted after violations: " + str(e)[:200])
            report.coverage.setdefault("samples", [{"note": "aborted"}])
            report.coverage.setdefault("states", 1)
            report.coverage.setdefault("transitions", 1)
            report.coverage.setdefault("traces_validated_against_impl", 0)
        return report.finish()
    except HarnessError as e:
        print("HARNESS-ERROR property=%s: %s" % (prop, e))
        return 2
    except Exception:  # noqa: BLE001
        print("HARNESS-ERROR property=%s: %s" % (prop, traceback.format_exc()))
        return 2


if __name__ == "__main__":
    sys.exit(main())
