"""Fixed banks of problems, convex sets and regularisers. Everything is addressed by a JSON-able spec so
that an execution can be written to a replay file and rebuilt from it."""
import numpy as np

# non-representable decimals used to perturb constants per salt (salt 0 = unperturbed)
SALT_EPS = [0.0, 0.1, 0.3 + 0.6 - 0.9 + 0.07, -1.0 / 3.0 * 0.1, 0.013, -0.021, 0.037, 0.0049]


def _s(salt):
    return SALT_EPS[salt % len(SALT_EPS)]


# ------------------------------------------------------------------------------------------------
# residual functions:  spec = {"f": name, "salt": int, ...}
# ------------------------------------------------------------------------------------------------
def make_problem(spec):
    name = spec["f"]
    e = _s(spec.get("salt", 0))
    if name == "rosen":          # n=2, m=2, zero residual at (1,1)
        def f(x):
            return np.array([10.0 * (x[1] - x[0] ** 2), (1.0 + e) - x[0]])
        return f, 2, 2
    if name == "nzr":            # n=2, m=3, nonzero residual (restarts/slow exits happen)
        def f(x):
            return np.array([10.0 * (x[1] - x[0] ** 2), 1.0 - x[0], 0.5 + e + 0.25 * x[0] * x[1]])
        return f, 2, 3
    if name == "one":            # n=1, m=2
        def f(x):
            return np.array([x[0] - 0.3 - e, 0.5 * (x[0] ** 2 - 1.0)])
        return f, 1, 2
    if name == "rosen3":         # n=3, m=4
        def f(x):
            return np.array([10.0 * (x[1] - x[0] ** 2), 1.0 - x[0], 10.0 * (x[2] - x[1] ** 2), (1.0 + e) - x[1]])
        return f, 3, 4
    if name == "nzr3":           # n=3, m=4 nonzero residual
        def f(x):
            return np.array([x[0] + 2 * x[1] - x[2] - 1.0, x[0] * x[1] - 0.5, x[2] ** 2 + x[0] - 0.7 - e,
                             0.3 + 0.1 * x[1] * x[2]])
        return f, 3, 4
    if name == "inv":            # n=3, m=2 (m < n: inverse problem)
        def f(x):
            return np.array([x[0] + 2.0 * x[1] - x[2] - 1.0 - e, x[0] * x[1] + 0.5 * x[2] - 0.5])
        return f, 3, 2
    if name == "const":          # large constant residual, tiny slope (initial-set experiments): n given
        n = spec["n"]

        def f(x):
            return np.concatenate([10.0 + 0.01 * x, [5.0 + e]])
        return f, n, n + 1
    if name == "lin":            # r = A x - b
        A = np.array(spec["A"], dtype=float)
        b = np.array(spec["b"], dtype=float)

        def f(x):
            return A.dot(x) - b
        return f, A.shape[1], A.shape[0]
    if name == "wide":           # m=120 residuals (printing threshold), n given
        n = spec["n"]
        m = spec.get("m", 120)
        W = np.cos(np.outer(np.arange(1, m + 1), np.arange(1, n + 1)) * 0.37)
        c = np.sin(np.arange(m) * 0.11) + e

        def f(x):
            return W.dot(x) - c
        return f, n, m
    raise ValueError("unknown problem %r" % (spec,))


# ------------------------------------------------------------------------------------------------
# convex sets: spec = {"t": "ball"|"half"|"box", ...}
# ------------------------------------------------------------------------------------------------
class CSet(object):
    def __init__(self, spec):
        self.spec = spec
        self.t = spec["t"]
        if self.t == "ball":
            self.c = np.array(spec["c"], dtype=float)
            self.r = float(spec["r"])
        elif self.t == "half":
            self.a = np.array(spec["a"], dtype=float)
            self.b = float(spec["b"])
        elif self.t == "box":
            self.l = np.array(spec["l"], dtype=float)
            self.u = np.array(spec["u"], dtype=float)
        else:
            raise ValueError(spec)
        self.ncalls = 0

    def proj(self, x):
        self.ncalls += 1
        if self.t == "ball":
            d = x - self.c
            nd = np.linalg.norm(d)
            return x.copy() if nd <= self.r else self.c + (self.r / nd) * d
        if self.t == "half":
            v = self.a.dot(x) - self.b
            return x.copy() if v <= 0.0 else x - (v / self.a.dot(self.a)) * self.a
        return np.minimum(np.maximum(x, self.l), self.u)

    def proj_inplace(self, x):
        """The same projection written the other legitimate way: the argument is overwritten and returned."""
        x[...] = self.proj(x)
        return x

    def dist(self, x):
        if self.t == "ball":
            return max(0.0, np.linalg.norm(x - self.c) - self.r)
        if self.t == "half":
            return max(0.0, (self.a.dot(x) - self.b) / np.linalg.norm(self.a))
        return float(np.linalg.norm(x - np.minimum(np.maximum(x, self.l), self.u)))

    def inside_exact(self, x):
        if self.t == "box":
            return bool(np.all(x >= self.l) and np.all(x <= self.u))
        return self.dist(x) == 0.0


# ------------------------------------------------------------------------------------------------
# regularisers: spec = {"r": "l1"|"l2", "lam": float, "args": bool}
# ------------------------------------------------------------------------------------------------
def make_reg(spec, n):
    lam = float(spec["lam"])
    kind = spec["r"]
    use_args = bool(spec.get("args", False))
    log = {"h": [], "prox": []}   # extra positional arguments seen on every call

    def h_l1(x, l):
        return l * np.sum(np.abs(x))

    def prox_l1(x, u, l):
        return np.sign(x) * np.maximum(np.abs(x) - l * u, 0.0)

    def h_l2(x, l):
        return l * np.sqrt(np.dot(x, x))

    def prox_l2(x, u, l):
        nx = np.sqrt(np.dot(x, x))
        return x * max(0.0, 1.0 - l * u / nx) if nx > 0 else x.copy()

    hh, pp = (h_l1, prox_l1) if kind == "l1" else (h_l2, prox_l2)
    lh = lam * np.sqrt(n) if kind == "l1" else lam
    if use_args:
        # different tuples for h and prox (different lengths, different tags), so that a mix-up cannot go unnoticed
        def h(x, *a):
            log["h"].append(a)
            return hh(x, a[0])

        def prox(x, u, *a):
            log["prox"].append(a)
            return pp(x, u, a[1]) if len(a) == 3 else pp(x, u, a[0])
        return h, prox, lh, (lam, "for-h"), ("for-prox", lam, 3), log

    def h(x, *a):
        log["h"].append(a)
        return hh(x, lam)

    def prox(x, u, *a):
        log["prox"].append(a)
        return pp(x, u, lam)
    return h, prox, lh, (), (), log


def h_value(spec, x):
    lam = float(spec["lam"])
    if spec["r"] == "l1":
        return lam * np.sum(np.abs(x))
    return lam * np.sqrt(np.dot(x, x))
