"""E3 `gridx`: exhaustive enumeration of finite input-shape alphabets for numerical kernels.

A property module provides
    cases(tier, salts) -> list of JSON-able case dicts (stable order; the index identifies a case)
    check_case(case)   -> (violations [(clause, detail)], tags [str])
Every case is evaluated on the real function and on an oracle that is exact for the small dimensions used.
"""
import importlib
import traceback

from . import common
from .common import HarnessError


def _work(task):
    modname, chunk = task
    try:
        mod = importlib.import_module(modname)
        out = []
        for idx, case in chunk:
            try:
                v, tags = mod.check_case(case)
            except HarnessError:
                raise
            except Exception as e:  # noqa: BLE001 - the kernel raised: that is an observation about the kernel
                v, tags = [("raises", "%s: %s | %s" % (type(e).__name__, e, traceback.format_exc(limit=3).splitlines()[-2].strip()))], ["raised"]
            out.append((idx, v, tags))
        return {"out": out}
    except HarnessError as e:
        return {"error": str(e)}
    except Exception:  # noqa: BLE001
        return {"error": traceback.format_exc(limit=8)}


def run_grid(report, modname, cases, classify=None, chunk=200, nontrivial_tag=None):
    cases = list(cases)
    idx_cases = list(enumerate(cases))
    tasks = [(modname, idx_cases[i:i + chunk]) for i in range(0, len(idx_cases), chunk)]
    tags = {}
    n = 0
    nviol = 0
    for res in common.pool_map(_work, tasks):
        if "error" in res:
            raise HarnessError("gridx worker failed: " + res["error"])
        for idx, v, tg in res["out"]:
            n += 1
            for t in tg:
                tags[t] = tags.get(t, 0) + 1
            for clause, detail in v:
                nviol += 1
                case = cases[idx]
                cl = classify(case, clause, detail) if classify else {}
                report.add_violation(clause, detail, {"engine": "gridx", "module": modname, "index": idx, "case": case}, cl)
    cov = report.coverage
    cov["evaluations"] = cov.get("evaluations", 0) + n
    cov["tags"] = dict(sorted(tags.items()))
    cov["exhaustive"] = True
    cov.setdefault("samples", [])
    for i in (0, len(cases) // 2, len(cases) - 1):
        if len(cov["samples"]) < 3 and cases:
            cov["samples"].append({"index": i, "case": cases[i]})
    return tags


def replay_case(modname, case, verbose=True):
    mod = importlib.import_module(modname)
    v, tags = mod.check_case(case)
    if verbose:
        print("case =", common.jsonable(case))
        print("tags =", tags)
        for c, d in v:
            print("  VIOLATED clause=%s: %s" % (c, d))
    return v
