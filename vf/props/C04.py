"""C04 - the best point ever evaluated is never lost (deterministic objective, no averaging).

alphabet: mode (incl. convex sets with two simultaneously active constraints) x budget x problem x answer deviations
bound   : <=1 deviation (quick), <=2 (thorough, reduced); n=2
oracle  : B = min over recorded calls of sum(r^2)+h(x) (finite values only); soln.obj <= B, and at the top of every
          iteration min(incumbent, saved) <= best recorded so far.  The environment memoises answers by the bytes of x,
          so any answer sequence is a legitimate deterministic objective.
"""
from .. import common, solvex, cfgs, monitors as mon

LEVEL = "exploration"
MOD = "C04"
SITE_EXEMPT = {}     # evaluation sites this check cannot reach (site -> reason); see solvex.site_floor
EXIT_EXEMPT = {"solve_main#0": "budget reached while x0 is being sampled: needs averaging, which C04's statement excludes",
               "solve_main#9": "auto-detected restart: needs a noisy objective, which C04's statement excludes"}

BOX = {"lo": [-1.5, -0.5], "hi": [0.9, 1.7]}
BOXBALL = [{"t": "box", "l": [0.7, -2.0], "u": [1.0, 2.0]}, {"t": "ball", "c": [0.5, 1.0], "r": 0.25}]
MODES = {
    "plain": {},
    "bounds": dict(BOX),
    "scaling": dict(BOX, scaling=True),
    "npt2n1": {"npt": 5},
    "soft": {"up": cfgs.RESTART_MODES["soft"]},
    "soft_nomove": {"up": cfgs.RESTART_MODES["soft_nomove"]},
    "soft_inc": {"up": cfgs.RESTART_MODES["soft_inc"]},
    "hard_old": {"up": cfgs.RESTART_MODES["hard_old"]},
    "hard_new": {"up": cfgs.RESTART_MODES["hard_new"]},
    "growing": {"up": {"growing.ndirs_initial": 1}},
    "regression": {"npt": 5, "up": {"regression.num_extra_steps": 1}},
    "boxball": {"sets": BOXBALL, "x0": [-1.2, 0.7], "rhobeg": 0.12},
    "boxball_fine": {"sets": BOXBALL, "x0": [-1.2, 0.7], "rhobeg": 0.12, "rhoend": 1e-8},
    "doc_ballbox": {"sets": [{"t": "ball", "c": [0.7, 1.5], "r": 0.4}], "lo": [-2.0, 1.1], "hi": [0.9, 3.0],
                    "x0": [-1.2, 1.0], "rhobeg": 0.12, "rhoend": 1e-8},
    "boxball_soft": {"sets": BOXBALL, "x0": [-1.2, 0.7], "rhobeg": 0.12, "up": cfgs.RESTART_MODES["soft"]},
    "ball_half_box": dict(lo=[-2.0, -2.0], hi=[0.95, 1.5], x0=[0.2, 0.3],
                          sets=[{"t": "ball", "c": [0.0, 0.0], "r": 1.2}, {"t": "half", "a": [1.0, 1.0], "b": 1.5}]),
    "l1": {"reg": {"r": "l1", "lam": 0.05}},
}
SLOW = ("l1",)
LETTERS = ["best", "x0.3", "x0", "tie", "x3", "nan"]


def _mk(prob, mode, maxfun, salt):
    m = MODES[mode]
    npt = m.get("npt", 3)
    cfg = cfgs.base_cfg(prob, salt, npt=npt, rhobeg=m.get("rhobeg", 0.3), rhoend=m.get("rhoend", 0.02), maxfun=maxfun, memo=True,
                        tag_mode=mode)
    for k in ("lo", "hi", "scaling", "sets", "reg", "x0"):
        if k in m:
            cfg[k] = m[k]
    if m.get("up"):
        cfg["user_params"] = cfgs.user_params(npt, m["up"])
    return cfg


def _configs(tier, salts):
    out = []
    for salt in salts:
        for mode in MODES:
            if salt != 0 and mode in SLOW:
                continue
            npt = MODES[mode].get("npt", 3)
            budgets = [npt + 1, 13, 30] if tier == "quick" else [2, npt, npt + 1, 9, 13, 30, 50]
            if mode in SLOW:
                budgets = [npt + 1, 10]
            if mode in ("boxball_fine", "doc_ballbox"):
                budgets = [60]
            for prob in ("rosen", "nzr"):
                for maxfun in budgets:
                    cfg = _mk(prob, mode, maxfun, salt)
                    depth = 0 if mode in SLOW else 1
                    if tier == "quick" and salt != 0:
                        depth = 1 if maxfun == 13 else 0
                    if tier == "thorough" and salt >= 3:     # all single deviations at every budget on three salts, at two budgets on the rest
                        depth = depth if maxfun in (13, 30) else 0
                    letters = LETTERS
                    if tier == "thorough" and salt == 0 and maxfun == 13 and prob == "rosen" and mode in (
                            "plain", "soft", "hard_new", "boxball", "ball_half_box", "bounds") or (
                            tier == "thorough" and salt == 0 and prob == "rosen" and mode in ("boxball_fine", "doc_ballbox")):
                        depth, letters = 2, ["best", "tie", "x3", "nan"]
                    out.append((cfg, {"depth": depth, "letters": letters}))
            # warm start: x0 is already the exact minimiser of a nonzero-residual problem, so no run can improve on it
            # (every restart is then an 'unsuccessful' one from the very beginning)
            if mode in ("plain", "soft", "soft_nomove", "soft_inc", "hard_old", "hard_new", "bounds", "l1") and (salt == 0 or tier == "thorough"):
                for maxfun in ((13, 30) if mode != "l1" else (10,)):
                    cfg = _mk("rosen", mode, maxfun, salt)
                    cfg["prob"] = {"f": "lin", "A": [[1.0, 0.0], [0.0, 1.0], [0.0, 0.0]], "b": [0.0, 0.0, -1.0 - 0.1 * salt], "salt": salt}
                    cfg["x0"] = [0.0, 0.0]
                    cfg["tag_start"] = "at_min_nonzero_residual"
                    out.append((cfg, {"depth": 0 if mode == "l1" else 1, "letters": LETTERS}))
        # the model-increase geometries under soft and hard restarts (the abandoned trial point must survive the restart)
        if salt == 0 or (tier == "thorough" and salt == 1):
            out += cfgs.tr_increase_cfgs(salt, restarts=("soft", "hard_new"), letters=("best", "x0.3", "x0"))
        # declared linear-algebra faults: a point evaluated just before a linear-algebra exit or error-recovery restart
        if salt == 0 or (tier == "thorough" and salt == 1):
            out += [(c, p) for c, p in cfgs.linalg_fault_cfgs(salt, tier) if "noisy" not in c["broad_flags"]]
        # regularised modes (capped subproblem solver) under soft restarts at budgets that let a restart happen (wave j: a saved point
        # valued with h at the scaled coordinates loses the final choice - needs regulariser + scaling + the saved slot)
        if salt == 0:
            for name, cfg in cfgs.broad_cfgs(salt=salt, require=("regfast",), overlays=("soft",), budgets=(40, 80), reg_budgets=(40, 80)):
                if name.endswith("+soft"):
                    out.append((cfg, {"depth": 0}))
        # the broad option bank, deterministic modes only
        if salt == 0 or (tier == "thorough" and salt == 1):
            for name, cfg in cfgs.broad_cfgs(salt=salt, exclude=("noisy",), budgets=(7, 25, 60)):
                depth = 1 if (cfg["maxfun"] == 25 and "reg" not in cfg["broad_flags"] and (tier == "thorough" or cfg["prob"]["f"] == "rosen")) else 0
                out.append((cfg, {"depth": depth, "letters": ["best", "x0", "x3", "nan"]}))
    return out


def monitors(cfg):
    return [mon.BestKeptMonitor(), mon.ReturnsMonitor()]


def classify(cfg, clause, detail):
    return {"mode": cfg.get("tag_mode"), "reg": cfg.get("reg") is not None, "sets": bool(cfg.get("sets"))}


def run(report, tier, seed):
    salts = common.salts_for(tier, seed)
    cps = _configs(tier, salts)
    res = solvex.explore(report, MOD, cps, classify=classify)
    solvex.site_floor(report, res["tags"], exempt=SITE_EXEMPT)
    solvex.exit_floor(report, res["tags"], exempt=EXIT_EXEMPT)
    try:    # reported, not required: two of the sites need averaging, which C04's statement excludes (C03 requires them all)
        solvex.save_floor(report, res["tags"])
    except common.HarnessError:
        pass
    tags = res["tags"]
    cov = report.coverage
    dev_exits = sorted(t for t in tags if t.startswith("best_from_deviation|"))
    last_sites = sorted(t for t in tags if t.startswith("best_is_last_eval@"))
    need = ["best_from_deviation|Objective has been called MAXFUN times", "best_from_deviation|rho has reached rhoend",
            "best_from_deviation|Objective is sufficiently small",
            "best_from_deviation|Either multiple constraints are active o"]
    if [t for t in need if not tags.get(t)] or len(last_sites) < 5:
        raise common.HarnessError("C04 exploration is vacuous: deviated-best exits %s, last-eval sites %s" % (dev_exits, last_sites))
    cov["rule"] = ("executions of dfols.solve over mode x budget x problem with every single (thorough: pair of) answer "
                   "deviation(s) at every evaluation index under a memoised environment; non-trivial = executions in which "
                   "the best value was produced by a deviated answer, counted per distinct exit message / evaluation site")
    cov["distinct_nontrivial"] = len(dev_exits) + len(last_sites)
    cov["best_from_deviation_by_exit"] = {t.split("|", 1)[1]: tags[t] for t in dev_exits}
    cov["best_is_last_eval_by_site"] = {t.split("@", 1)[1]: tags[t] for t in last_sites}
    cov["salts"] = salts
    report.assumptions += ["objective values recomputed by the harness with the same dot product on the same vector; "
                           "1e-13 relative slack", "n=2; <=1 deviation (quick) / <=2 (thorough)"]


def replay(rep):
    ex = solvex.replay(rep)
    return 1 if ex.viol else 0
