"""C17 - model bookkeeping stays consistent under any sequence of updates.

E2 explicit-state search: states are reached by histories of the public update operations of dfols.model.Model
(change_point, add_new_sample, add_new_point, swap_points, shift_base, save_point; get_final_results is queried in
every state) drawn from a small alphabet of points and residual letters that are *relative to the incumbent*
(better / worse / exact tie / sign-flipped tie / NaN / inf), with and without a regulariser.  The reference is a boring
shadow model (lists of absolute points, sample lists, evaluation numbers).  Thorough additionally replays the operation
traces of real solver runs with every single (and, on a reduced alphabet, every pair of) inserted operation(s).
"""
import copy
import numpy as np

from .. import common, modelx
from ..modelx import Disabled

LEVEL = "model_checking"
SYS = "vf.props.C17"

PTS = [(0.5, 0.0), (0.0, 0.5), (-0.25, 0.25), (0.5, 0.5)]
LETTERS = ["better", "worse", "tie", "negtie", "nan", "inf"]
BIG = 1e20


def _h(x):
    return 0.25 * float(np.sum(np.abs(x)))


def rank(v):
    """Ordering used by the oracle: every non-finite value (NaN, inf) is equally bad - the property only asks that
    finite values are preferred over NaN."""
    v = float(v)
    return v if np.isfinite(v) else np.inf


def better(a, b):
    """a strictly better than b (non-finite values rank equal and worst)."""
    return bool(rank(a) < rank(b))


class Shadow(object):
    def __init__(self, x0, r0, reg):
        self.reg = reg
        self.xbase = np.array(x0, dtype=float)
        self.pts = [[np.array(x0, dtype=float), [np.array(r0, dtype=float)], 1]]
        self.kopt = 0
        self.stale = False       # incumbent was overwritten by a worse point and not recomputed since
        self.saved = None
        self.next_eval = 2

    def mean(self, k):
        return np.mean(np.array(self.pts[k][1]), axis=0)

    def objof(self, x, r):
        v = float(np.dot(r, r))
        return v + _h(x) if self.reg else v

    def obj(self, k):
        return self.objof(self.pts[k][0], self.mean(k))

    def objs(self):
        return np.array([self.obj(k) for k in range(len(self.pts))])

    def designates_min(self):
        o = self.objs()
        return not any(better(t, o[self.kopt]) for t in o)

    def letter(self, L):
        r = self.mean(self.kopt)
        ok = np.all(np.isfinite(r))
        if L == "better":
            return 0.5 * r if ok else np.array([0.5, 0.25])
        if L == "worse":
            return 2.0 * r + np.array([1.0, 0.0]) if ok else np.array([3.0, 1.0])
        if L == "tie":
            return r.copy() if ok else np.array([1.0, 1.0])
        if L == "negtie":
            return -r if ok else np.array([-1.0, 1.0])
        if L == "nan":
            return np.array([np.nan, 1.0])
        if L == "inf":
            return np.array([np.inf, 1.0])
        raise ValueError(L)


def init(params):
    from dfols.model import Model
    n = 2
    x0 = np.array([1.0, 0.5])
    r0 = np.array([1.0, -0.5])
    reg = params.get("reg", False)
    model = Model(params["npt"], x0, r0, -BIG * np.ones(n), BIG * np.ones(n), [], 1, h=_h if reg else None, do_logging=False)
    st = {"m": model, "s": Shadow(x0, r0, reg)}
    for op in params.get("prelude", []):
        apply(st, op, params, check=False)
    return st


def clone(st):
    return copy.deepcopy(st)


def ops(st, params):
    m = st["m"]
    K = m.npt()
    pts = PTS[:params.get("npts_alpha", 4)]
    letters = params.get("letters", LETTERS)
    out = []
    ks = list(range(K)) + ([K] if m.npt_so_far < m.num_pts else [])
    for k in ks:
        for pi in range(len(pts)):
            for L in letters:
                out.append(["change", k, pi, L])
    for k in range(K):
        for L in letters:
            out.append(["sample", k, L])
    if m.npt_so_far >= m.num_pts and m.num_pts < params.get("max_pts", 4):
        for pi in range(len(pts)):
            for L in letters:
                out.append(["addpt", pi, L])
    for k1 in range(K):
        for k2 in range(k1 + 1, K):
            out.append(["swap", k1, k2])
    out.append(["shift", "xopt"])
    out.append(["shift", "dyadic"])
    for k in range(K):
        out.append(["save_k", k])
    for pi in range(min(2, len(pts))):
        for L in letters:
            out.append(["save_new", pi, L])
    return out


def apply(st, op, params, check=True):
    m, s = st["m"], st["s"]
    kind = op[0]
    try:
        if kind == "change":
            _, k, pi, L = op
            r = s.letter(L)
            xrel = np.array(PTS[pi])
            ev = s.next_eval
            m.change_point(k, xrel, r, ev)
            s.next_eval += 1
            ent = [s.xbase + xrel, [r.copy()], ev]
            if k == len(s.pts):
                s.pts.append(ent)
            else:
                s.pts[k] = ent
            if k == s.kopt:
                if not s.designates_min():
                    s.stale = True
            elif better(s.obj(k), s.obj(s.kopt)):
                s.kopt = k
                if s.designates_min():
                    s.stale = False
        elif kind == "sample":
            _, k, L = op
            r = s.letter(L)
            m.add_new_sample(k, rvec_extra=r)
            s.pts[k][1].append(r.copy())
            o = s.objs()
            rk = np.array([rank(t) for t in o])
            if not (rk[s.kopt] == rk.min() or abs(rk[s.kopt] - rk.min()) <= 1e-12 * max(1.0, abs(rk.min()))):
                s.kopt = int(np.argmin(rk))
            s.stale = False
        elif kind == "addpt":
            _, pi, L = op
            r = s.letter(L)
            xrel = np.array(PTS[pi])
            ev = s.next_eval
            m.add_new_point(xrel, r, ev)
            s.next_eval += 1
            s.pts.append([s.xbase + xrel, [r.copy()], ev])
            if better(s.obj(len(s.pts) - 1), s.obj(s.kopt)):
                s.kopt = len(s.pts) - 1
                if s.designates_min():
                    s.stale = False
        elif kind == "swap":
            _, k1, k2 = op
            m.swap_points(k1, k2)
            s.pts[k1], s.pts[k2] = s.pts[k2], s.pts[k1]
            if s.kopt == k1:
                s.kopt = k2
            elif s.kopt == k2:
                s.kopt = k1
        elif kind == "shift":
            sh = (s.pts[s.kopt][0] - s.xbase) if op[1] == "xopt" else np.array([0.25, -0.5])
            m.shift_base(sh.copy())
            s.xbase = s.xbase + sh
        elif kind == "save_k":
            k = op[1]
            x = s.pts[k][0].copy()
            r = s.mean(k)
            _save(m, s, x, r, len(s.pts[k][1]), s.pts[k][2])
        elif kind == "save_new":
            _, pi, L = op
            x = s.xbase + np.array(PTS[pi]) + np.array([0.125, 0.125])
            r = s.letter(L)
            ev = s.next_eval
            s.next_eval += 1
            _save(m, s, x, r, 1, ev)
        else:
            raise ValueError(op)
    except AssertionError as e:
        raise Disabled(str(e))
    return check_state(st, params) if check else []


def _save(m, s, x, r, ns, ev):
    m.save_point(x.copy(), r.copy(), ns, ev, x_in_abs_coords=True)
    obj = s.objof(x, r)
    # "better or equal replaces"; a NaN never replaces a number, anything replaces a NaN
    if s.saved is None or np.isnan(s.saved["obj"]) or obj <= s.saved["obj"]:
        s.saved = {"x": x.copy(), "r": r.copy(), "ns": ns, "ev": ev, "obj": obj}


def _eq(a, b, tol=1e-12):
    a = np.asarray(a, dtype=float)
    b = np.asarray(b, dtype=float)
    if a.shape != b.shape:
        return False
    na, nb = np.isnan(a), np.isnan(b)
    if not np.array_equal(na, nb):
        return False
    fa = ~na
    ia = np.isinf(a) & fa
    if not np.array_equal(ia, np.isinf(b) & fa) or not np.array_equal(a[ia], b[ia]):
        return False
    f = fa & ~ia
    if not f.any():
        return True
    sc = max(1.0, float(np.max(np.abs(b[f]))))
    return bool(np.max(np.abs(a[f] - b[f])) <= tol * sc)


def check_state(st, params):
    m, s = st["m"], st["s"]
    v = []
    K = m.npt()
    if K != len(s.pts):
        return [("npt", "model has %d points, shadow %d" % (K, len(s.pts)))]
    for k in range(K):
        xa = m.xbase + m.points[k, :]
        if not _eq(xa, s.pts[k][0]):
            v.append(("position", "point %d at %s, shadow %s" % (k, xa.tolist(), s.pts[k][0].tolist())))
        if int(m.eval_num[k]) != s.pts[k][2]:
            v.append(("eval_num_travels", "point %d carries evaluation %d, shadow %d" % (k, m.eval_num[k], s.pts[k][2])))
        if int(m.nsamples[k]) != len(s.pts[k][1]):
            v.append(("sample_count", "point %d claims %d samples, %d were given" % (k, m.nsamples[k], len(s.pts[k][1]))))
        mean = s.mean(k)
        if not _eq(m.fval_v[k, :], mean, 1e-13):
            v.append(("mean_of_samples", "point %d stores residual %s, mean of its samples is %s" % (k, m.fval_v[k, :].tolist(), mean.tolist())))
        want = float(np.dot(m.fval_v[k, :], m.fval_v[k, :])) + (_h(xa) if s.reg else 0.0)
        if not _eq(m.objval[k], want):
            v.append(("objval", "point %d objective %r != sum(stored residual^2)+h = %r" % (k, float(m.objval[k]), want)))
    if v:
        return v
    o = s.objs()
    if not (0 <= m.kopt < K):
        return [("kopt", "incumbent index %s out of range" % m.kopt)]
    ri, rs_ = rank(m.objval[m.kopt]), rank(o[s.kopt])
    if not (ri == rs_ or abs(ri - rs_) <= 1e-12 * max(1.0, abs(rs_))):
        v.append(("kopt", "incumbent designates objective %r, the documented rule gives %r (objectives %s)" % (
            float(m.objval[m.kopt]), float(o[s.kopt]), o.tolist())))
    elif not s.stale:
        rmin = min(rank(t) for t in o)
        if rmin < ri and not abs(ri - rmin) <= 1e-12 * max(1.0, abs(rmin)):
            v.append(("kopt_is_min", "incumbent objective %r is not the smallest of %s and the incumbent was not overwritten" % (
                float(m.objval[m.kopt]), o.tolist())))
    # final-result query: must be the saved point or the incumbent, whichever is better (finite preferred over NaN)
    x, r, obj, jac, ns, ev, jev = m.get_final_results()
    cands = [{"x": s.pts[m.kopt][0], "r": s.mean(m.kopt), "ns": len(s.pts[m.kopt][1]), "ev": s.pts[m.kopt][2], "obj": o[m.kopt]}]
    if s.saved is not None:
        cands.append(s.saved)
    best = min(rank(c["obj"]) for c in cands)
    ok = False
    for w in cands:
        rw = rank(w["obj"])
        if not (rw == best or abs(rw - best) <= 1e-12 * max(1.0, abs(best))):
            continue
        if _eq(obj, w["obj"]) and _eq(x, w["x"]) and _eq(r, w["r"], 1e-12) and int(ns) == w["ns"] and int(ev) == w["ev"]:
            ok = True
            break
    if not ok:
        v.append(("final_query", "get_final_results returned obj=%r eval=%s nsamples=%s x=%s; candidates %s" % (
            float(obj), ev, ns, np.asarray(x).tolist(),
            [{"obj": float(w["obj"]), "ev": w["ev"], "ns": w["ns"], "x": np.asarray(w["x"]).tolist()} for w in cands])))
    return v


def check(st, params):
    return check_state(st, params)


def key(st):
    m, s = st["m"], st["s"]
    K = m.npt()
    parts = [np.array([m.num_pts, m.npt_so_far, m.kopt, int(m.factorisation_current), int(s.stale), s.kopt, s.next_eval]).tobytes(),
             m.points[:K].tobytes(), m.fval_v[:K].tobytes(), m.objval[:K].tobytes(), m.nsamples[:K].tobytes(),
             m.eval_num[:K].tobytes(), m.xbase.tobytes(), m.sl.tobytes(), m.su.tobytes(), m.model_jac.tobytes(),
             m.model_const.tobytes()]
    if m.objsave is not None:
        parts += [np.asarray(m.xsave).tobytes(), np.asarray(m.rsave).tobytes(), np.array([m.objsave, m.nsamples_save, m.eval_num_save], dtype=float).tobytes()]
    else:
        parts.append(b"nosave")
    for p in s.pts:
        parts.append(b"#%d:" % p[2])
        for r in p[1]:
            parts.append(r.tobytes())
    return b"|".join(parts)


def describe(st):
    m = st["m"]
    return "npt=%d kopt=%d objval=%s eval_num=%s nsamples=%s objsave=%s" % (
        m.npt(), m.kopt, m.objval[:m.npt()].tolist(), m.eval_num[:m.npt()].tolist(), m.nsamples[:m.npt()].tolist(), m.objsave)


# ---------------------------------------------------------------------------------------------------------------
# recorded real histories (thorough): operation traces of real solver runs with inserted operations
# ---------------------------------------------------------------------------------------------------------------
def _variants(report, tier):
    return 0


def run(report, tier, seed):
    cov = report.coverage
    total_states = total_trans = 0
    samples = []
    levels = {}
    runs = []
    if tier == "quick":
        runs = [({"npt": 3, "reg": False, "max_pts": 4}, 3), ({"npt": 3, "reg": True, "max_pts": 4, "npts_alpha": 2}, 3),
                ({"npt": 4, "reg": False, "max_pts": 4, "npts_alpha": 2, "letters": ["better", "tie", "nan", "worse"]}, 3)]
    else:
        runs = [({"npt": 3, "reg": False, "max_pts": 4}, 3), ({"npt": 3, "reg": True, "max_pts": 4}, 3),
                ({"npt": 4, "reg": False, "max_pts": 5}, 3),
                ({"npt": 3, "reg": False, "max_pts": 4, "npts_alpha": 2, "letters": ["better", "tie", "nan", "worse"]}, 4),
                ({"npt": 3, "reg": True, "max_pts": 4, "npts_alpha": 2, "letters": ["better", "negtie", "nan", "inf"]}, 4)]
    capped = False
    for params, depth in runs:
        res = modelx.bfs(SYS, params, depth)
        total_states += res["states"]
        total_trans += res["transitions"]
        capped = capped or res["capped"]
        levels[common.sha(params)[:8]] = {"params": params, "depth": depth, "states_per_level": res["per_level"],
                                          "transitions": res["transitions"], "disabled_ops": res["disabled"]}
        for h in res["samples"]:
            if len(samples) < 3:
                samples.append({"params": params, "history": h})
        seen = set()
        for clause, detail, hist in sorted(res["violations"], key=lambda t: len(t[2])):
            # report the shortest history per (clause, last operation kind)
            k = (clause, hist[-1][0] if hist else "init")
            if k in seen:
                continue
            seen.add(k)
            report.add_violation(clause, detail, {"engine": "modelx", "sys": SYS, "params": params, "history": hist},
                                 {"op": hist[-1][0] if hist else "init", "reg": bool(params.get("reg"))})
    cov["states"] = total_states
    cov["transitions"] = total_trans
    cov["traces_validated_against_impl"] = total_trans
    cov["samples"] = samples
    cov["searches"] = levels
    cov["exhaustive"] = not capped
    cov["rule"] = ("breadth-first search over histories of Model update operations; every transition calls the real method and "
                   "the shadow model and compares them (so every explored trace is an implementation trace); states are "
                   "de-duplicated on the bytes of every mutable attribute plus the shadow's sample lists")
    cov["evaluations"] = total_trans
    cov["distinct_nontrivial"] = total_states
    report.assumptions += ["n=2, m=2, npt in {3,4} growing to <=5; alphabet of 4 dyadic points and 6 incumbent-relative "
                           "residual letters; depth 3 (4 on reduced alphabets in thorough)"]
    if total_states < 1000:
        raise common.HarnessError("C17 search is vacuous: %d states" % total_states)


def replay(rep):
    v = modelx.replay_history(rep["sys"], rep["params"], rep["history"])
    return 1 if v else 0
