"""C17 - model bookkeeping stays consistent under any sequence of updates.

E2 explicit-state search: states are reached by histories of the public update operations of dfols.model.Model
(change_point, add_new_sample, add_new_point, swap_points, shift_base, save_point - with fresh arrays and with the model's
own views, as the controller passes them -; get_final_results is queried in every state) drawn from a small alphabet of points and residual letters that are *relative to the incumbent*
(better / worse / exact tie / sign-flipped tie / NaN / inf), with and without a regulariser.  The reference is a boring
shadow model (lists of absolute points, sample lists, evaluation numbers).  Thorough additionally replays the operation
traces of real solver runs with every single (and, on a reduced alphabet, every pair of) inserted operation(s).
"""
import copy
import numpy as np

from .. import common, modelx
from ..modelx import Disabled

LEVEL = "model_checking"
SYS = "vf.props.C17"

PTS = [(0.5, 0.0), (0.0, 0.5), (-0.25, 0.25), (0.5, 0.5)]
LETTERS = ["better", "worse", "tie", "negtie", "nan", "inf"]
BIG = 1e20


def _h(x):
    return 0.25 * float(np.sum(np.abs(x)))


# internal variable scaling (the model works in scaled coordinates, the regulariser is a function of the user's):
# user x = shift + scale * model x.  Chosen so that h at the scaled and at the user's point differ in size and in sign pattern.
SCALING = (np.array([10.0, -3.0]), np.array([10.0, 0.5]))


def _hu(x, scaled):
    x = np.asarray(x, dtype=float)
    return _h(SCALING[0] + x * SCALING[1]) if scaled else _h(x)


def rank(v):
    """Ordering used by the oracle: every non-finite value (NaN, inf) is equally bad - the property only asks that
    finite values are preferred over NaN."""
    v = float(v)
    return v if np.isfinite(v) else np.inf


def better(a, b):
    """a strictly better than b (non-finite values rank equal and worst)."""
    return bool(rank(a) < rank(b))


class Shadow(object):
    def __init__(self, x0, r0, reg, scaled=False):
        self.reg = reg
        self.scaled = scaled
        self.xbase = np.array(x0, dtype=float)
        self.pts = [[np.array(x0, dtype=float), [np.array(r0, dtype=float)], 1]]
        self.kopt = 0
        self.stale = False       # incumbent was overwritten by a worse point and not recomputed since
        self.saved = None
        self.next_eval = 2

    def mean(self, k):
        return np.mean(np.array(self.pts[k][1]), axis=0)

    def objof(self, x, r):
        v = float(np.dot(r, r))
        return v + _hu(x, self.scaled) if self.reg else v

    def obj(self, k):
        return self.objof(self.pts[k][0], self.mean(k))

    def objs(self):
        return np.array([self.obj(k) for k in range(len(self.pts))])

    def designates_min(self):
        o = self.objs()
        return not any(better(t, o[self.kopt]) for t in o)

    def letter(self, L):
        r = self.mean(self.kopt)
        m = len(r)
        ok = np.all(np.isfinite(r))
        e0 = np.zeros(m)
        e0[0] = 1.0
        if L == "better":
            return 0.5 * r if ok else 0.25 * np.ones(m) + 0.25 * e0
        if L == "worse":
            return 2.0 * r + e0 if ok else np.ones(m) + 2.0 * e0
        if L == "tie":
            return r.copy() if ok else np.ones(m)
        if L == "negtie":
            return -r if ok else np.ones(m) - 2.0 * e0
        if L == "nan":
            return np.ones(m) + (np.nan - 1.0) * e0 if False else np.where(e0 == 1.0, np.nan, 1.0)
        if L == "inf":
            return np.where(e0 == 1.0, np.inf, 1.0)
        raise ValueError(L)


def init(params):
    from dfols.model import Model
    if params.get("ctor") is not None:
        c = params["ctor"]
        x0, r0 = np.array(c["x0"], dtype=float), np.array(c["r0"], dtype=float)
        n = len(x0)
        model = Model(c["npt"], x0.copy(), r0.copy(), -BIG * np.ones(n), BIG * np.ones(n), [], c["ns0"], do_logging=False,
                      x0_eval_num=c.get("ev0", 1)) if "ev0" in c else \
            Model(c["npt"], x0.copy(), r0.copy(), -BIG * np.ones(n), BIG * np.ones(n), [], c["ns0"], do_logging=False)
        sh = Shadow(x0, r0, False)
        sh.pts[0][1] = [r0.copy() for _ in range(int(c["ns0"]))]
        sh.next_eval = 100000
        return {"m": model, "s": sh}
    n = 2
    x0 = np.array([1.0, 0.5])
    r0 = np.array([1.0, -0.5])
    reg = params.get("reg", False)
    scaled = bool(params.get("scaled"))
    model = Model(params["npt"], x0, r0, -BIG * np.ones(n), BIG * np.ones(n), [], 1, h=_h if reg else None, do_logging=False,
                  scaling_changes=SCALING if scaled else None)
    st = {"m": model, "s": Shadow(x0, r0, reg, scaled)}
    for op in params.get("prelude", []):
        apply(st, op, params, check=False)
    return st


def clone(st):
    return copy.deepcopy(st)


def ops(st, params):
    m = st["m"]
    K = m.npt()
    pts = PTS[:params.get("npts_alpha", 4)]
    letters = params.get("letters", LETTERS)
    out = []
    ks = list(range(K)) + ([K] if m.npt_so_far < m.num_pts else [])
    for k in ks:
        for pi in range(len(pts)):
            for L in letters:
                out.append(["change", k, pi, L])
    for k in range(K):
        for L in letters:
            out.append(["sample", k, L])
    if m.npt_so_far >= m.num_pts and m.num_pts < params.get("max_pts", 4):
        for pi in range(len(pts)):
            for L in letters:
                out.append(["addpt", pi, L])
    for k1 in range(K):
        for k2 in range(k1 + 1, K):
            out.append(["swap", k1, k2])
    out.append(["shift", "xopt"])
    out.append(["shift", "dyadic"])
    for k in range(K):
        out.append(["save_k", k])
    out.append(["save_view"])
    for pi in range(min(2, len(pts))):
        for L in letters:
            out.append(["save_new", pi, L])
    return out


def apply(st, op, params, check=True):
    m, s = st["m"], st["s"]
    kind = op[0]
    try:
        if kind == "change":
            _, k, pi, L = op
            if k > len(s.pts):
                raise Disabled("index beyond the next free slot")
            r = s.letter(L)
            xrel = np.array(PTS[pi])
            ev = s.next_eval
            m.change_point(k, xrel, r, ev)
            s.next_eval += 1
            ent = [s.xbase + xrel, [r.copy()], ev]
            if k == len(s.pts):
                s.pts.append(ent)
            else:
                s.pts[k] = ent
            if k == s.kopt:
                if not s.designates_min():
                    s.stale = True
            elif better(s.obj(k), s.obj(s.kopt)):
                s.kopt = k
                if s.designates_min():
                    s.stale = False
        elif kind == "sample":
            _, k, L = op
            if k >= len(s.pts):
                raise Disabled("no such point yet")
            r = s.letter(L)
            m.add_new_sample(k, rvec_extra=r)
            s.pts[k][1].append(r.copy())
            o = s.objs()
            rk = np.array([rank(t) for t in o])
            if not (rk[s.kopt] == rk.min() or abs(rk[s.kopt] - rk.min()) <= 1e-12 * max(1.0, abs(rk.min()))):
                s.kopt = int(np.argmin(rk))
            s.stale = False
        elif kind == "addpt":
            _, pi, L = op
            if m.npt_so_far < m.num_pts:
                raise Disabled("add_new_point is only used on a complete point set (soft restart with increased npt)")
            r = s.letter(L)
            xrel = np.array(PTS[pi])
            ev = s.next_eval
            m.add_new_point(xrel, r, ev)
            s.next_eval += 1
            s.pts.append([s.xbase + xrel, [r.copy()], ev])
            if better(s.obj(len(s.pts) - 1), s.obj(s.kopt)):
                s.kopt = len(s.pts) - 1
                if s.designates_min():
                    s.stale = False
        elif kind == "swap":
            _, k1, k2 = op
            if max(k1, k2) >= len(s.pts):
                raise Disabled("swap with a slot that holds no point yet")
            m.swap_points(k1, k2)
            s.pts[k1], s.pts[k2] = s.pts[k2], s.pts[k1]
            if s.kopt == k1:
                s.kopt = k2
            elif s.kopt == k2:
                s.kopt = k1
        elif kind == "shift":
            sh = (s.pts[s.kopt][0] - s.xbase) if op[1] == "xopt" else np.array([0.25, -0.5])
            m.shift_base(sh.copy())
            s.xbase = s.xbase + sh
        elif kind == "save_k":
            k = op[1]
            if k >= len(s.pts):
                raise Disabled("no such point yet")
            x = s.pts[k][0].copy()
            r = s.mean(k)
            _save(m, s, x, r, len(s.pts[k][1]), s.pts[k][2])
        elif kind == "save_view":
            # save the incumbent exactly as Controller.soft_restart does: the model's own accessors are passed straight in
            # (ropt() is a view of the residual table), so the saved copy must not alias model storage
            k = int(m.kopt)
            if k >= len(s.pts) or k != s.kopt:
                raise Disabled("incumbent not in step with the shadow")
            x, r, ns, ev = s.pts[k][0].copy(), s.mean(k), len(s.pts[k][1]), s.pts[k][2]
            m.save_point(m.xopt(abs_coordinates=True), m.ropt(), m.nsamples[m.kopt], m.eval_num[m.kopt], x_in_abs_coords=True)
            _shadow_save(s, {"x": x, "r": r.copy(), "ns": ns, "ev": ev, "obj": s.objof(x, r)})
        elif kind == "save_new":
            _, pi, L = op
            x = s.xbase + np.array(PTS[pi]) + np.array([0.125, 0.125])
            r = s.letter(L)
            ev = s.next_eval
            s.next_eval += 1
            _save(m, s, x, r, 1, ev)
        elif kind == "c_change":          # concrete operations recorded from a real solver run
            _, k, x, r, ev = op
            xrel, r = np.array(x, dtype=float), np.array(r, dtype=float)
            m.change_point(int(k), xrel, r, int(ev))
            ent = [s.xbase + xrel, [r.copy()], int(ev)]
            if k == len(s.pts):
                s.pts.append(ent)
            elif k < len(s.pts):
                s.pts[k] = ent
            else:
                raise Disabled("recorded index beyond the shadow's point set")
            if k == s.kopt:
                if not s.designates_min():
                    s.stale = True
            elif better(s.obj(k), s.obj(s.kopt)):
                s.kopt = k
                if s.designates_min():
                    s.stale = False
        elif kind == "c_sample":
            _, k, r = op
            if k >= len(s.pts):
                raise Disabled("recorded index beyond the point set")
            r = np.array(r, dtype=float)
            m.add_new_sample(int(k), rvec_extra=r)
            s.pts[k][1].append(r.copy())
            o = s.objs()
            rk = np.array([rank(t) for t in o])
            if not (rk[s.kopt] == rk.min() or abs(rk[s.kopt] - rk.min()) <= 1e-12 * max(1.0, abs(rk.min()))):
                s.kopt = int(np.argmin(rk))
            s.stale = False
        elif kind == "c_addpt":
            _, x, r, ev = op
            if m.npt_so_far < m.num_pts:
                raise Disabled("add_new_point is only used on a complete point set")
            xrel, r = np.array(x, dtype=float), np.array(r, dtype=float)
            m.add_new_point(xrel, r, int(ev))
            s.pts.append([s.xbase + xrel, [r.copy()], int(ev)])
            if better(s.obj(len(s.pts) - 1), s.obj(s.kopt)):
                s.kopt = len(s.pts) - 1
                if s.designates_min():
                    s.stale = False
        elif kind == "c_shift":
            sh = np.array(op[1], dtype=float)
            m.shift_base(sh.copy())
            s.xbase = s.xbase + sh
        elif kind == "c_save":
            _, x, r, ns, ev = op
            _save(m, s, np.array(x, dtype=float), np.array(r, dtype=float), int(ns), int(ev))
        else:
            raise ValueError(op)
    except AssertionError as e:
        raise Disabled(str(e))
    except Disabled:
        raise
    except Exception as e:  # noqa: BLE001 - a Model operation that raises on valid data is an observation, not a harness failure
        return [("op_raises", "%s raised %s: %s" % (op, type(e).__name__, e))]
    # exact ties: which of several equally good points is the incumbent is not determined by the property (np.nanargmin
    # takes the first, a comparison keeps the old one) - follow the model's choice among tied points, so that a later
    # overwrite of "the incumbent" means the same slot for both
    o = s.objs()
    if 0 <= m.kopt < len(o) and m.kopt != s.kopt:
        a, b = rank(o[m.kopt]), rank(o[s.kopt])
        if a == b or abs(a - b) <= 1e-12 * max(1.0, abs(b)):
            s.kopt = int(m.kopt)
    return check_state(st, params) if check else []


def _shadow_save(s, cand):
    """"better or equal replaces"; a NaN never replaces a number, anything replaces a NaN.  Objectives that agree to rounding
    (the model accumulates a running mean, the shadow averages the sample list) are a tie whose outcome the property does not
    determine: both points stay acceptable answers of the final-result query."""
    obj = cand["obj"]
    if not hasattr(s, "saved_alts"):
        s.saved_alts = []
    if s.saved is None or np.isnan(s.saved["obj"]):
        s.saved, s.saved_alts = cand, []
        return
    old = s.saved["obj"]
    if np.isfinite(obj) and np.isfinite(old) and abs(obj - old) <= 1e-12 * max(1.0, abs(old)):
        s.saved_alts = s.saved_alts + [s.saved]
        s.saved = cand
    elif obj <= old:
        s.saved, s.saved_alts = cand, []


def _save(m, s, x, r, ns, ev):
    m.save_point(x.copy(), r.copy(), ns, ev, x_in_abs_coords=True)
    _shadow_save(s, {"x": x.copy(), "r": r.copy(), "ns": ns, "ev": ev, "obj": s.objof(x, r)})


def _eq(a, b, tol=1e-12):
    a = np.asarray(a, dtype=float)
    b = np.asarray(b, dtype=float)
    if a.shape != b.shape:
        return False
    na, nb = np.isnan(a), np.isnan(b)
    if not np.array_equal(na, nb):
        return False
    fa = ~na
    ia = np.isinf(a) & fa
    if not np.array_equal(ia, np.isinf(b) & fa) or not np.array_equal(a[ia], b[ia]):
        return False
    f = fa & ~ia
    if not f.any():
        return True
    sc = max(1.0, float(np.max(np.abs(b[f]))))
    return bool(np.max(np.abs(a[f] - b[f])) <= tol * sc)


def check_state(st, params):
    m, s = st["m"], st["s"]
    v = []
    K = m.npt()
    if K != len(s.pts):
        return [("npt", "model has %d points, shadow %d" % (K, len(s.pts)))]
    for k in range(K):
        xa = m.xbase + m.points[k, :]
        if not _eq(xa, s.pts[k][0]):
            v.append(("position", "point %d at %s, shadow %s" % (k, xa.tolist(), s.pts[k][0].tolist())))
        if int(m.eval_num[k]) != s.pts[k][2]:
            v.append(("eval_num_travels", "point %d carries evaluation %d, shadow %d" % (k, m.eval_num[k], s.pts[k][2])))
        if int(m.nsamples[k]) != len(s.pts[k][1]):
            v.append(("sample_count", "point %d claims %d samples, %d were given" % (k, m.nsamples[k], len(s.pts[k][1]))))
        mean = s.mean(k)
        if not _eq(m.fval_v[k, :], mean, 1e-13):
            v.append(("mean_of_samples", "point %d stores residual %s, mean of its samples is %s" % (k, m.fval_v[k, :].tolist(), mean.tolist())))
        want = float(np.dot(m.fval_v[k, :], m.fval_v[k, :])) + (_hu(xa, s.scaled) if s.reg else 0.0)
        if not _eq(m.objval[k], want):
            v.append(("objval", "point %d objective %r != sum(stored residual^2)+h = %r" % (k, float(m.objval[k]), want)))
    if v:
        return v
    o = s.objs()
    if not (0 <= m.kopt < K):
        return [("kopt", "incumbent index %s out of range" % m.kopt)]
    ri, rs_ = rank(m.objval[m.kopt]), rank(o[s.kopt])
    if not (ri == rs_ or abs(ri - rs_) <= 1e-12 * max(1.0, abs(rs_))):
        v.append(("kopt", "incumbent designates objective %r, the documented rule gives %r (objectives %s)" % (
            float(m.objval[m.kopt]), float(o[s.kopt]), o.tolist())))
    elif not s.stale:
        rmin = min(rank(t) for t in o)
        if rmin < ri and not abs(ri - rmin) <= 1e-12 * max(1.0, abs(rmin)):
            v.append(("kopt_is_min", "incumbent objective %r is not the smallest of %s and the incumbent was not overwritten" % (
                float(m.objval[m.kopt]), o.tolist())))
    # final-result query: must be the saved point or the incumbent, whichever is better (finite preferred over NaN)
    x, r, obj, jac, ns, ev, jev = m.get_final_results()
    cands = [{"x": s.pts[m.kopt][0], "r": s.mean(m.kopt), "ns": len(s.pts[m.kopt][1]), "ev": s.pts[m.kopt][2], "obj": o[m.kopt]}]
    if s.saved is not None:
        cands.append(s.saved)
        cands += list(getattr(s, "saved_alts", []))
    best = min(rank(c["obj"]) for c in cands)
    ok = False
    for w in cands:
        rw = rank(w["obj"])
        if not (rw == best or abs(rw - best) <= 1e-12 * max(1.0, abs(best))):
            continue
        if _eq(obj, w["obj"]) and _eq(x, w["x"]) and _eq(r, w["r"], 1e-12) and int(ns) == w["ns"] and int(ev) == w["ev"]:
            ok = True
            break
    if not ok:
        v.append(("final_query", "get_final_results returned obj=%r eval=%s nsamples=%s x=%s; candidates %s" % (
            float(obj), ev, ns, np.asarray(x).tolist(),
            [{"obj": float(w["obj"]), "ev": w["ev"], "ns": w["ns"], "x": np.asarray(w["x"]).tolist()} for w in cands])))
    return v


def check(st, params):
    return check_state(st, params)


def key(st):
    m, s = st["m"], st["s"]
    K = m.npt()
    parts = [np.array([m.num_pts, m.npt_so_far, m.kopt, int(m.factorisation_current), int(s.stale), s.kopt, s.next_eval]).tobytes(),
             m.points[:K].tobytes(), m.fval_v[:K].tobytes(), m.objval[:K].tobytes(), m.nsamples[:K].tobytes(),
             m.eval_num[:K].tobytes(), m.xbase.tobytes(), m.sl.tobytes(), m.su.tobytes(), m.model_jac.tobytes(),
             m.model_const.tobytes()]
    if m.objsave is not None:
        parts += [np.asarray(m.xsave).tobytes(), np.asarray(m.rsave).tobytes(), np.array([m.objsave, m.nsamples_save, m.eval_num_save], dtype=float).tobytes()]
        # two states with equal bytes have the same futures only if they also alias the same storage: a saved field that is
        # a view of a model table will change with it
        alias = [bool(isinstance(a, np.ndarray) and isinstance(b, np.ndarray) and np.shares_memory(a, b))
                 for a in (m.xsave, m.rsave, m.jacsave) for b in (m.points, m.fval_v, m.model_jac, m.xbase)]
        parts.append(bytes(bytearray(int(t) for t in alias)))
    else:
        parts.append(b"nosave")
    parts.append(b"alts:" + b",".join(b"%d" % a["ev"] for a in getattr(s, "saved_alts", [])))
    for p in s.pts:
        parts.append(b"#%d:" % p[2])
        for r in p[1]:
            parts.append(r.tobytes())
    return b"|".join(parts)


def describe(st):
    m = st["m"]
    return "npt=%d kopt=%d objval=%s eval_num=%s nsamples=%s objsave=%s" % (
        m.npt(), m.kopt, m.objval[:m.npt()].tolist(), m.eval_num[:m.npt()].tolist(), m.nsamples[:m.npt()].tolist(), m.objsave)


# ---------------------------------------------------------------------------------------------------------------
# recorded real histories (thorough): operation traces of real solver runs with inserted operations
# ---------------------------------------------------------------------------------------------------------------
def record_traces():
    """Operation traces of real solver runs, captured by wrapping the Model methods from the harness."""
    import dfols.model as M
    from .. import solvex, cfgs
    runs = [
        ("plain", cfgs.base_cfg("rosen", 0, npt=3, rhobeg=0.3, rhoend=0.02, maxfun=40)),
        ("soft", cfgs.base_cfg("nzr", 0, npt=3, rhobeg=0.3, rhoend=0.05, maxfun=45, user_params={"restarts.use_restarts": True})),
        ("avg2", cfgs.base_cfg("nzr", 0, npt=3, rhobeg=0.3, rhoend=0.05, maxfun=40, nsamples="const2", memo=False, noise_amp=0.02)),
        ("soft_inc", cfgs.base_cfg("nzr", 0, npt=3, rhobeg=0.3, rhoend=0.05, maxfun=45,
                                   user_params={"restarts.use_restarts": True, "restarts.increase_npt": True, "restarts.max_npt": 5})),
        ("regression", cfgs.base_cfg("rosen", 0, npt=5, rhobeg=0.3, rhoend=0.02, maxfun=40)),
    ]
    out = []
    names = ["__init__", "change_point", "add_new_sample", "add_new_point", "shift_base", "save_point"]
    for name, cfg in runs:
        rec = {"ctor": None, "ops": [], "first": None}
        orig = {nm: getattr(M.Model, nm) for nm in names}

        def mk(nm):
            def w(self, *a, **kw):
                if nm == "__init__":
                    r = orig[nm](self, *a, **kw)
                    if rec["first"] is None:
                        rec["first"] = self
                        rec["ctor"] = {"npt": int(a[0]), "x0": np.array(a[1]).tolist(), "r0": np.array(a[2]).tolist(), "ns0": int(a[6])}
                    return r
                if self is rec["first"]:
                    if nm == "change_point":
                        rec["ops"].append(["c_change", int(a[0]), np.array(a[1]).tolist(), np.array(a[2]).tolist(), int(a[3])])
                    elif nm == "add_new_sample":
                        k = a[0] if a else kw["k"]
                        r = kw.get("rvec_extra", a[1] if len(a) > 1 else None)
                        rec["ops"].append(["c_sample", int(k), np.array(r).tolist()])
                    elif nm == "add_new_point":
                        rec["ops"].append(["c_addpt", np.array(a[0]).tolist(), np.array(a[1]).tolist(), int(a[2])])
                    elif nm == "shift_base":
                        rec["ops"].append(["c_shift", np.array(a[0]).tolist()])
                    elif nm == "save_point":
                        rec["ops"].append(["c_save", np.array(a[0]).tolist(), np.array(a[1]).tolist(), int(a[2]), int(a[3])])
                return orig[nm](self, *a, **kw)
            return w
        for nm in names:
            setattr(M.Model, nm, mk(nm))
        try:
            ex = solvex.Execution(cfg).run()
        finally:
            for nm in names:
                setattr(M.Model, nm, orig[nm])
        if ex.outcome != "returned" or not rec["ops"]:
            raise common.HarnessError("could not record a real trace for %s: %s" % (name, ex.describe()))
        out.append({"name": name, "ctor": rec["ctor"], "ops": rec["ops"][:60]})
    return out


def _variant_task(task):
    """Replay trace[:i] + inserted ops (one or two, the second j positions later) + rest of the trace on the real Model."""
    trace, variants = task
    params = {"ctor": trace["ctor"], "npt": trace["ctor"]["npt"], "max_pts": 7}
    ops_real = trace["ops"]
    out = []
    ntrans = 0
    for var in variants:
        st = init(params)
        ins = dict((pos, op) for pos, op in var)     # position -> inserted op (inserted BEFORE real op number pos)
        first = min(ins)
        hist = []
        dead = False
        for i in range(len(ops_real) + 1):
            if i in ins:
                try:
                    v = apply(st, ins[i], params, check=True)
                except Disabled:
                    dead = True
                    break
                ntrans += 1
                hist.append(ins[i])
                if v:
                    out.append((v[0][0], v[0][1], trace["name"], var, len(hist)))
                    dead = True
                    break
            if i == len(ops_real):
                break
            try:
                v = apply(st, ops_real[i], params, check=(i >= first))
            except Disabled:
                dead = True
                break
            ntrans += 1
            hist.append(ops_real[i])
            if v:
                out.append((v[0][0], v[0][1], trace["name"], var, len(hist)))
                break
    return {"viol": out, "ntrans": ntrans, "nvar": len(variants)}


def _alphabet_for(trace_ctor, reduced=False):
    """Relative operations that can be inserted anywhere (indices limited to the initial point count)."""
    K = trace_ctor["npt"]
    letters = ["better", "tie", "nan", "worse"] if reduced else LETTERS
    out = []
    for k in range(K):
        for pi in (range(2) if reduced else range(len(PTS))):
            for L in letters:
                out.append(["change", k, pi, L])
        for L in letters:
            out.append(["sample", k, L])
        if not reduced or k == 0:
            out.append(["save_k", k])
    for k1 in range(K):
        for k2 in range(k1 + 1, K):
            out.append(["swap", k1, k2])
    out.append(["shift", "xopt"])
    out.append(["shift", "dyadic"])
    out.append(["save_view"])
    for L in letters:
        out.append(["save_new", 0, L])
    if not reduced:
        for L in letters:
            out.append(["addpt", 0, L])
    return out


def _variants(report, tier):
    """All single insertions (quick: two traces; thorough: all traces) and, in thorough, all pairs of insertions from a
    reduced alphabet whose second member comes 0..3 positions after the first."""
    traces = record_traces()
    # the pure recorded traces must themselves satisfy the oracle (conformance of the shadow model with real runs)
    tasks = []
    use = traces[:2] if tier == "quick" else traces
    for tr in use:
        if len(tr["ctor"]["x0"]) != 2:
            continue
        alpha = _alphabet_for(tr["ctor"], reduced=(tier == "quick"))
        n = len(tr["ops"])
        step = 1 if tier == "thorough" else 2
        variants = [[(i, op)] for i in range(0, n + 1, step) for op in alpha]
        if tier == "thorough":
            red = _alphabet_for(tr["ctor"], reduced=True)[::3]
            for i in range(0, n + 1, 2):
                for j in (0, 1, 3):
                    if i + j > n:
                        continue
                    for a in red:
                        for b in red:
                            variants.append([(i, a), (i + j + (0 if j else 0), b)] if j else [(i, a)])
            # pairs at the same position are applied in order a then b: encode as positions i and i (dict keeps one) -> use i, i+1
        for c in range(0, len(variants), 400):
            tasks.append((tr, variants[c:c + 400]))
    nvar = ntrans = 0
    seen = set()
    for res in common.pool_map(_variant_task, tasks):
        nvar += res["nvar"]
        ntrans += res["ntrans"]
        for clause, detail, tname, var, steps in res["viol"]:
            k = (clause, tname, var[0][1][0])
            if k in seen:
                continue
            seen.add(k)
            report.add_violation(clause, "recorded trace '%s' with inserted %s: %s" % (tname, var, detail),
                                 {"engine": "variants", "trace": tname, "variant": var}, {"op": var[0][1][0], "variants": True})
    return {"traces": [{"name": t["name"], "length": len(t["ops"])} for t in use], "variants": nvar, "transitions": ntrans}


def run(report, tier, seed):
    cov = report.coverage
    total_states = total_trans = 0
    samples = []
    levels = {}
    runs = []
    if tier == "quick":
        runs = [({"npt": 3, "reg": False, "max_pts": 4}, 3), ({"npt": 3, "reg": True, "max_pts": 4, "npts_alpha": 2}, 3),
                ({"npt": 3, "reg": True, "scaled": True, "max_pts": 3, "npts_alpha": 2, "letters": ["better", "tie", "worse"]}, 3),
                ({"npt": 4, "reg": False, "max_pts": 4, "npts_alpha": 2, "letters": ["better", "tie", "nan", "worse"]}, 3)]
    else:
        runs = [({"npt": 3, "reg": False, "max_pts": 4}, 3), ({"npt": 3, "reg": True, "max_pts": 4}, 3),
                ({"npt": 3, "reg": True, "scaled": True, "max_pts": 4, "npts_alpha": 2}, 3),
                ({"npt": 4, "reg": False, "max_pts": 5}, 3),
                ({"npt": 3, "reg": False, "max_pts": 4, "npts_alpha": 2, "letters": ["better", "tie", "nan", "worse"]}, 4),
                ({"npt": 3, "reg": True, "max_pts": 4, "npts_alpha": 2, "letters": ["better", "negtie", "nan", "inf"]}, 4)]
    capped = False
    for params, depth in runs:
        res = modelx.bfs(SYS, params, depth)
        total_states += res["states"]
        total_trans += res["transitions"]
        capped = capped or res["capped"]
        levels[common.sha(params)[:8]] = {"params": params, "depth": depth, "states_per_level": res["per_level"],
                                          "transitions": res["transitions"], "disabled_ops": res["disabled"]}
        for h in res["samples"]:
            if len(samples) < 3:
                samples.append({"params": params, "history": h})
        seen = set()
        for clause, detail, hist in sorted(res["violations"], key=lambda t: len(t[2])):
            # report the shortest history per (clause, last operation kind)
            k = (clause, hist[-1][0] if hist else "init")
            if k in seen:
                continue
            seen.add(k)
            report.add_violation(clause, detail, {"engine": "modelx", "sys": SYS, "params": params, "history": hist},
                                 {"op": hist[-1][0] if hist else "init", "reg": bool(params.get("reg"))})
    vres = _variants(report, tier)
    cov["recorded_trace_variants"] = vres
    total_trans += vres["transitions"]
    cov["states"] = total_states
    cov["transitions"] = total_trans
    cov["traces_validated_against_impl"] = total_trans
    cov["samples"] = samples
    cov["searches"] = levels
    cov["exhaustive"] = not capped
    cov["rule"] = ("breadth-first search over histories of Model update operations; every transition calls the real method and "
                   "the shadow model and compares them (so every explored trace is an implementation trace); states are "
                   "de-duplicated on the bytes of every mutable attribute plus the shadow's sample lists")
    cov["evaluations"] = total_trans
    cov["distinct_nontrivial"] = total_states
    report.assumptions += ["n=2, m=2, npt in {3,4} growing to <=5; alphabet of 4 dyadic points and 6 incumbent-relative "
                           "residual letters; depth 3 (4 on reduced alphabets in thorough)"]
    if total_states < 1000:
        raise common.HarnessError("C17 search is vacuous: %d states" % total_states)


def replay(rep):
    if rep.get("engine") == "variants":
        tr = [t for t in record_traces() if t["name"] == rep["trace"]][0]
        res = _variant_task((tr, [[tuple(p) for p in rep["variant"]]]))
        for clause, detail, tname, var, steps in res["viol"]:
            print("  VIOLATED clause=%s after %d operations: %s" % (clause, steps, detail))
        return 1 if res["viol"] else 0
    v = modelx.replay_history(rep["sys"], rep["params"], rep["history"])
    return 1 if v else 0
