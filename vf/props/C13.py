"""C13 - geometry and convex-constrained step solvers stay inside their regions.

(a) trsbox_geometry: c x g letters^n x Delta decades x all per-coordinate patterns {far, at lower, at upper, tight,
    degenerate (lower == upper)}; oracle = global maximum of |c + g's| over box∩ball found on the clipped ray
    t -> clip(+-t g) by bisection (exact: KKT conditions of a convex programme).
(b) ctrsbox_pgd / ctrsbox_geometry / ctrsbox_sfista over a bank of convex sets containing the centre:
    ||d|| <= Delta (1+1e-8).
(c) Controller.trust_region_step on controllers built by the real solve() with L1 / L2 regularisers, with and without
    bounds, and perturbed models: the predicted reduction recomputed by the harness is never negative.
"""
import itertools
import numpy as np

from .. import common, gridx, bank

LEVEL = "exploration"
MOD = "vf.props.C13"

C_LETTERS = [0.0, 1.0, -0.5]
G_LETTERS = [-2.0, 0.0, 1.0, 1e-3]
DELTAS = [1e-4, 1e-2, 1.0, 10.0]
PATTERNS = ["far", "lo", "hi", "tight", "degen"]

SETS2 = {
    "ball": [{"t": "ball", "c": [0.3, -0.2], "r": 1.0}],
    "half0": [{"t": "half", "a": [1.0, 2.0], "b": 0.0}],                      # half-space through the centre
    "wedge": [{"t": "half", "a": [1.0, 1.0], "b": 0.0}, {"t": "half", "a": [1.0, -1.0], "b": 0.0}],
    "thinbox": [{"t": "box", "l": [-1e-3, -5.0], "u": [1e-3, 5.0]}],
    "ballhalf": [{"t": "ball", "c": [0.0, 0.5], "r": 1.0}, {"t": "half", "a": [0.0, -1.0], "b": 0.0}],
    # geometries defined relative to Delta ("rel": lengths are multiplied by Delta): constraints that cross the
    # trust-region boundary at a shallow angle, where Dykstra converges slowly and the order of projections matters
    "tangent": [{"t": "half", "a": [1.0, 0.1], "b": 0.995, "rel": True}],
    "tangent2": [{"t": "half", "a": [1.0, 0.02], "b": 0.9995, "rel": True}, {"t": "half", "a": [1.0, -0.02], "b": 0.9995, "rel": True}],
    "lens": [{"t": "ball", "c": [0.05, 0.0], "r": 1.0, "rel": True}, {"t": "half", "a": [0.0, 1.0], "b": 0.3, "rel": True}],
}
HF2 = ["zero", "eye", "rank1", "dense"]


def cases(tier, salts):
    out = []
    for salt in salts:
        ns = [1, 2, 3]
        for n in ns:
            gl = G_LETTERS
            for c in C_LETTERS:
                for g in itertools.product(gl, repeat=n):
                    for dl in DELTAS:
                        for pat in itertools.product(range(len(PATTERNS)), repeat=n):
                            if n == 3 and tier == "quick" and (salt != 0 or c == -0.5) and sum(1 for p in pat if p == 0) >= 2:
                                continue
                            out.append({"k": "geom", "n": n, "c": c, "g": list(g), "delta": dl, "pat": list(pat), "salt": salt})
        # (b) convex solvers, n = 2
        gs2 = list(itertools.product([-1.0, 0.0, 1.0, 1e-3], repeat=2))
        for sname in SETS2:
            for g in gs2:
                for sc in ([1e-2, 1.0, 1e2] if tier == "thorough" or salt == 0 else [1.0]):
                    for dl in [1e-3, 0.1, 1.0, 10.0]:
                        out.append({"k": "cgeom", "set": sname, "g": list(g), "sc": sc, "delta": dl, "c": 1.0, "salt": salt})
                        for hf in (HF2 if tier == "thorough" else ["zero", "rank1"]):
                            out.append({"k": "pgd", "set": sname, "g": list(g), "sc": sc, "delta": dl, "H": hf, "salt": salt})
                            if salt == 0 and (tier == "thorough" or (sc == 1.0 and dl in (0.1, 10.0))):
                                for reg in ("l1", "l2"):
                                    out.append({"k": "sfista", "set": sname, "g": list(g), "sc": sc, "delta": dl, "H": hf,
                                                "reg": reg, "salt": salt})
        # (b2) every pair of constraints from a family that cuts the trust region (wave i: with two or more user sets whose
        # Dykstra corrections are both live at the solution the routine stops unconverged, and only the set projected LAST
        # is satisfied exactly): 24 normals x 3 offsets of half-spaces and 4 off-centre balls, all relative to Delta
        if salt == salts[0] or tier == "thorough":
            fam = pair_family()
            gdirs = [[1.0, 0.0], [1.0, 1.0], [1.0, 0.4], [-0.3, 1.0]]    # the family covers the circle; four phases against it
            for i in range(len(fam)):
                for j in range(i + 1, len(fam)):
                    if fam[i]["t"] == "half" and fam[j]["t"] == "half" and \
                            fam[i]["a"][0] * fam[j]["a"][0] + fam[i]["a"][1] * fam[j]["a"][1] < 0.4:
                        continue        # normals more than 66 degrees apart: the second set is not live where the first cuts
                    for g in gdirs:
                        for dl in ([0.1, 1.0] if tier == "quick" else [1e-2, 0.1, 1.0, 10.0]):
                            base = {"specs": [fam[i], fam[j]], "set": "pair%d_%d" % (i, j), "g": g, "sc": 1.0, "delta": dl, "salt": salt}
                            out.append(dict(base, k="cgeom", c=0.5))
                            out.append(dict(base, k="pgd", H="zero"))
                            if tier == "thorough":
                                out.append(dict(base, k="pgd", H="rank1"))
        # (c) regularised trust_region_step on real controllers
        if salt == 0 or (tier == "thorough" and salt == 1):
            for reg in ("l1", "l2"):
                for lam in (1e-2, 1.0):
                    # constraint kind: none / bounds / general projections (each is a different branch of the step routine);
                    # start at an ordinary point or at the origin (a kink of both regularisers)
                    for bnd in (False, True, "proj", "proj_origin", "origin", "scaled", "scaled_pos"):
                        for pert in range(6 if tier == "quick" else 12):
                            for delta in (1e-3, 0.1, 0.3, 3.0):
                                for mi in (3, 40):
                                    out.append({"k": "regstep", "reg": reg, "lam": lam, "bounds": bnd, "pert": pert,
                                                "delta": delta, "max_iters": mi, "salt": salt})
    return out


def pair_family():
    import math
    fam = []
    for k in range(24):
        th = 2.0 * math.pi * k / 24.0 + 0.1
        for beta in (0.2, 0.45, 0.7):
            fam.append({"t": "half", "a": [math.cos(th), math.sin(th)], "b": beta, "rel": True})
    for k in range(4):
        th = 2.0 * math.pi * k / 4.0 + 0.4
        fam.append({"t": "ball", "c": [0.6 * math.cos(th), 0.6 * math.sin(th)], "r": 1.0, "rel": True})
    return fam


def _box(case):
    n = case["n"]
    e = 1.0 + 0.01 * case["salt"]
    xbase = np.array([0.1, -0.3, 0.7][:n]) * e
    dl = case["delta"]
    lo = np.zeros(n)
    hi = np.zeros(n)
    for i, p in enumerate(case["pat"]):
        p = PATTERNS[p]
        if p == "far":
            lo[i], hi[i] = xbase[i] - 1e20, xbase[i] + 1e20
        elif p == "lo":
            lo[i], hi[i] = xbase[i], xbase[i] + 10 * dl
        elif p == "hi":
            lo[i], hi[i] = xbase[i] - 10 * dl, xbase[i]
        elif p == "tight":
            lo[i], hi[i] = xbase[i] - 0.3 * dl, xbase[i] + 0.4 * dl
        else:
            lo[i], hi[i] = xbase[i], xbase[i]
    return xbase, lo, hi


def max_linear_box_ball(g, lo, hi, Delta):
    """max of g's over lo <= s <= hi (lo <= 0 <= hi), ||s|| <= Delta: the maximiser is s(t) = clip(t g) for some t >= 0."""
    if not np.any(g != 0.0):
        return 0.0
    def s_of(t):
        return np.minimum(np.maximum(t * g, lo), hi)
    # t large enough that every coordinate with g != 0 is clipped or the ball is left
    thi = 1.0
    while np.linalg.norm(s_of(thi)) < Delta and thi < 1e300:
        s1 = s_of(thi)
        if np.array_equal(s1, s_of(thi * 2)) and np.array_equal(s1, s_of(thi * 1e6)):
            return float(g.dot(s1))      # fully clipped inside the ball
        thi *= 2
    tlo = 0.0
    for _ in range(200):
        mid = 0.5 * (tlo + thi)
        if np.linalg.norm(s_of(mid)) <= Delta:
            tlo = mid
        else:
            thi = mid
    return float(g.dot(s_of(tlo)))


def _check_geom(case):
    from dfols.trust_region import trsbox_geometry
    xbase, lo, hi = _box(case)
    g = np.array(case["g"])
    c = case["c"]
    Delta = case["delta"]
    x = trsbox_geometry(xbase.copy(), c, g.copy(), lo.copy(), hi.copy(), Delta)
    v = []
    tags = []
    s = x - xbase
    sc = max(1.0, float(np.max(np.abs(xbase))))
    if np.any(x < lo - 1e-12 * sc) or np.any(x > hi + 1e-12 * sc):
        v.append(("geom_box", "x=%s outside box [%s, %s]" % (x.tolist(), lo.tolist(), hi.tolist())))
    if np.linalg.norm(s) > Delta * (1 + 1e-8):
        v.append(("geom_ball", "||s||=%.17g > Delta=%.17g" % (np.linalg.norm(s), Delta)))
    val = abs(c + g.dot(s))
    lo_s, hi_s = np.minimum(lo - xbase, 0.0), np.maximum(hi - xbase, 0.0)
    best = max(abs(c + max_linear_box_ball(g, lo_s, hi_s, Delta)), abs(c - max_linear_box_ball(-g, lo_s, hi_s, Delta)))
    if val < abs(c) * (1 - 1e-12) - 1e-300:
        v.append(("geom_not_worse", "|c+g's|=%.17g < |c|=%.17g" % (val, abs(c))))
    if val < best * (1 - 1e-6) - 1e-12 * max(abs(c), 1e-300) and best > 0:
        v.append(("geom_global_max", "|c+g's|=%.12g but the global maximum over box∩ball is %.12g" % (val, best)))
    if best > abs(c) * (1 + 1e-9):
        tags.append("geom_moves")
    if np.linalg.norm(s) >= Delta * (1 - 1e-6):
        tags.append("geom_on_ball")
    return v, tags


def _sets(case):
    e = 1.0 + 0.01 * case["salt"]
    specs = []
    for sp in (case["specs"] if "specs" in case else SETS2[case["set"]]):
        sp = dict(sp)
        if sp.pop("rel", False):
            D = case["delta"]
            if sp["t"] == "ball":
                sp["c"] = [t * D for t in sp["c"]]
                sp["r"] = sp["r"] * D
            else:
                sp["b"] = sp["b"] * D
        elif sp["t"] == "ball":
            sp["r"] = sp["r"] * e
        specs.append(sp)
    return [bank.CSet(sp) for sp in specs]


def _check_convex(case):
    from dfols import trust_region as T
    from .C12 import make_H
    sets = _sets(case)
    xopt = np.zeros(2)            # every set of the bank contains the origin
    for st in sets:
        if st.dist(xopt) > 0:
            raise common.HarnessError("set bank member %s does not contain the centre" % (st.spec,))
    P = [st.proj for st in sets]
    g = np.array(case["g"]) * case["sc"]
    Delta = case["delta"]
    v = []
    tags = []
    if case["k"] == "cgeom":
        d = T.ctrsbox_geometry(xopt.copy(), case["c"], g.copy(), P, Delta)
        what = "ctrsbox_geometry"
    elif case["k"] == "pgd":
        H = make_H(case["H"], 2, case["salt"]) * case["sc"]
        d, gnew, crvmin = T.ctrsbox_pgd(xopt.copy(), g.copy(), H, P, Delta)
        what = "ctrsbox_pgd"
    else:
        H = make_H(case["H"], 2, case["salt"]) * case["sc"]
        h, prox, lh, argsh, argsprox, log = bank.make_reg({"r": case["reg"], "lam": 0.1}, 2)
        d, gnew, crvmin = T.ctrsbox_sfista(xopt.copy(), g.copy(), H, P, Delta, h, lh, prox, func_tol=1e-3 * Delta, max_iters=60)
        what = "ctrsbox_sfista"
    nd = float(np.linalg.norm(d))
    if not np.isfinite(nd) or nd > Delta * (1 + 1e-8):
        v.append(("convex_ball", "%s returned ||d||=%.17g > Delta=%.17g (set %s)" % (what, nd, Delta, case["set"])))
    if nd >= Delta * (1 - 1e-6):
        tags.append(what + "_on_ball")
        if "specs" in case:
            tags.append("pair_on_ball")
            if sum(1 for st in sets if st.dist(xopt + d) > 0 or abs(_slack(st, xopt + d)) < 1e-6 * Delta) >= 2:
                tags.append("pair_both_active_on_ball")
    if nd > 0:
        tags.append(what + "_moves")
    return v, tags


def _slack(st, x):
    if st.t == "ball":
        return st.r - float(np.linalg.norm(x - st.c))
    if st.t == "half":
        return (st.b - float(st.a.dot(x))) / float(np.linalg.norm(st.a))
    return 1.0


_CTL_CACHE = {}


def _controller(reg, lam, bnd, salt):
    from .. import solvex
    key = (reg, lam, bnd, salt)
    cfg = {"prob": {"f": "lin", "A": [[1.0, 0.5], [0.2, 1.0], [0.3, 0.3]], "b": [0.1, -0.1, 0.2], "salt": salt},
           "x0": [0.5, 0.6], "reg": {"r": reg, "lam": lam}, "maxfun": 3, "rhobeg": 0.1, "memo": True}
    if bnd is True or bnd == "scaled_pos":
        cfg["lo"], cfg["hi"] = [0.2, 0.25], [2.0, 2.0]
    if bnd == "scaled":          # internal scaling, a box straddling zero (scaled and user coordinates differ in sign and size)
        cfg["lo"], cfg["hi"], cfg["x0"] = [-2.0, -1.0], [3.0, 1.5], [0.05, -0.1]
    if bnd in ("scaled", "scaled_pos"):
        cfg["scaling"] = True
        cfg["rhobeg"] = 0.02
    if bnd in ("proj", "proj_origin"):
        cfg["sets"] = [{"t": "ball", "c": [0.0, 0.0], "r": 2.0}]
    if bnd in ("proj_origin", "origin"):
        cfg["x0"] = [0.0, 0.0]
    ex = solvex.Execution(cfg).run()
    if not ex.controllers or ex.controllers[0].model.npt() != 3:
        raise common.HarnessError("could not build a controller for %r: %s" % (key, ex.describe()))
    return ex.controllers[0], ex


def _check_regstep(case):
    import dfols.params as P
    from dfols.util import model_value, remove_scaling
    ctl, ex = _controller(case["reg"], case["lam"], case["bounds"], case["salt"])
    m = ctl.model
    ok = m.interpolate_mini_models_svd()[0]
    if not ok:
        raise common.HarnessError("fit failed on constructed controller")
    # perturb the fitted model deterministically: the step must be safe for any model the main loop could hold
    k = case["pert"]
    rs = np.random.RandomState(100 + k)
    if k > 0:
        m.model_jac = m.model_jac + (0.5 * k) * rs.normal(size=m.model_jac.shape)
        m.model_const = m.model_const + (0.3 * k) * rs.normal(size=m.model_const.shape)
    ctl.delta = case["delta"]
    params = P.ParameterList(2, 3, 100)
    params("func_tol.max_iters", new_value=case["max_iters"])
    crit = ctl.evaluate_criticality_measure(params)
    d, gopt, H, gnew, crvmin = ctl.trust_region_step(params, crit)
    xo = m.xopt(abs_coordinates=True)
    pred = ctl.h(remove_scaling(xo, ctl.scaling_changes), *ctl.argsh) - model_value(gopt, H, d, xo, ctl.h, ctl.argsh, ctl.scaling_changes)
    v = []
    tags = ["regstep", "regstep:%s" % case["bounds"]]
    if not pred >= 0.0:
        v.append(("regstep_pred_reduction", "predicted reduction %.6g < 0 for the step handed to the main loop (d=%s)" % (pred, d.tolist())))
    if np.linalg.norm(d) > ctl.delta * (1 + 1e-8):
        v.append(("regstep_ball", "||d||=%.17g > delta=%.17g" % (np.linalg.norm(d), ctl.delta)))
    if np.any(d != 0):
        tags.append("regstep_moves")
    else:
        tags.append("regstep_zero")
        tags.append("regstep_zero:" + ("proj" if str(case["bounds"]).startswith("proj") else "scaled" if str(case["bounds"]).startswith("scaled")
                                       else "bounds" if case["bounds"] is True else "none"))
    return v, tags


def check_case(case):
    if case["k"] == "geom":
        return _check_geom(case)
    if case["k"] == "regstep":
        return _check_regstep(case)
    return _check_convex(case)


def classify(case, clause, detail):
    return {"kind": case["k"]}


def run(report, tier, seed):
    salts = common.salts_for(tier, seed)
    cs = cases(tier, salts)
    # slow kinds first so that the pool is balanced
    order = {"regstep": 0, "sfista": 1, "pgd": 2, "cgeom": 3, "geom": 4}
    cs.sort(key=lambda c: order[c["k"]])
    tags = gridx.run_grid(report, MOD, cs, classify=classify, chunk=60)
    cov = report.coverage
    need = ["geom_moves", "geom_on_ball", "ctrsbox_pgd_on_ball", "ctrsbox_geometry_on_ball", "ctrsbox_sfista_moves",
            "pair_on_ball", "regstep_moves", "regstep_zero", "regstep_zero:proj", "regstep_zero:bounds", "regstep_zero:none", "regstep_zero:scaled"]
    missing = [t for t in need if not tags.get(t)]
    if missing:
        raise common.HarnessError("C13 grid is vacuous: %s never occurred" % missing)
    kinds = {}
    for c in cs:
        kinds[c["k"]] = kinds.get(c["k"], 0) + 1
    cov["cases_by_kind"] = kinds
    cov["rule"] = ("Cartesian products of the stated alphabets per solver; non-trivial = geometry cases whose global maximum "
                   "strictly exceeds |c| plus convex / regularised cases with a non-zero step")
    cov["distinct_nontrivial"] = int(tags.get("geom_moves", 0) + tags.get("ctrsbox_pgd_moves", 0) + tags.get("ctrsbox_sfista_moves", 0) + tags.get("regstep_moves", 0))
    cov["salts"] = salts
    report.assumptions += ["n<=3 for the box geometry solver, n=2 for the convex solvers; set bank of 5 geometries that contain "
                           "the centre; regularised steps on 3x2 linear models perturbed by 6 (12) fixed perturbations"]


def replay(rep):
    v = gridx.replay_case(MOD, rep["case"])
    return 1 if v else 0
