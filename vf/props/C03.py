"""C03 - the returned solution is a point that was really evaluated.

alphabet: mode x maxfun x start x problem x answer deviations {x0, best, x0.3, tie, x3, nan}
bound   : <=1 deviation (quick), <=2 (thorough, reduced modes); n=2; rhoend>=1e-3
oracle  : recorded calls grouped by the solver's own point numbers; checked at the end of the run and on the live
          model at the top of every iteration.
"""
import numpy as np

from .. import common, solvex, cfgs, monitors as mon

LEVEL = "exploration"
MOD = "C03"
SITE_EXEMPT = {}     # evaluation sites this check cannot reach (site -> reason); see solvex.site_floor
EXIT_EXEMPT = {}     # exit sites this check cannot reach; see solvex.exit_floor
SAVE_EXEMPT = {"soft_restart#0": "dead code on the pinned tree: every caller passes x_in_abs_coords_to_save=None",
               "initialise_coordinate_directions#1": "dead code: solve() rejects init.run_in_parallel without random directions"}

BOX = {"lo": [-1.5, -0.5], "hi": [0.9, 1.7]}
MODES = {
    "plain": {},
    "bounds": dict(BOX),
    "scaling": dict(BOX, scaling=True),
    "avg2": {"nsamples": "const2", "memo": False, "noise_amp": 0.02},
    "avg_iter": {"nsamples": "iter%3+1", "memo": False, "noise_amp": 0.02},
    "npt2n1": {"npt": 5},
    "soft": {"up": cfgs.RESTART_MODES["soft"]},
    "soft_nomove": {"up": cfgs.RESTART_MODES["soft_nomove"]},
    "soft_inc": {"up": cfgs.RESTART_MODES["soft_inc"]},
    "soft_avg": {"up": cfgs.RESTART_MODES["soft"], "nsamples": "const2", "memo": False, "noise_amp": 0.02},
    "hard_old": {"up": cfgs.RESTART_MODES["hard_old"]},
    "hard_new": {"up": cfgs.RESTART_MODES["hard_new"]},
    "hard_old_scaling": dict(BOX, scaling=True, up=cfgs.RESTART_MODES["hard_old"]),
    "noise": {"objfun_has_noise": True, "memo": False, "noise_amp": 0.02},
    "growing": {"up": {"growing.ndirs_initial": 1}},
    "sets": {"sets": [{"t": "ball", "c": [0.0, 0.5], "r": 1.6}, {"t": "half", "a": [1.0, 1.0], "b": 1.6}]},
    "sets_bounds": dict(BOX, sets=[{"t": "ball", "c": [0.0, 0.5], "r": 1.6}]),
    "l1": {"reg": {"r": "l1", "lam": 0.05}},
    "l1_bounds": {"reg": {"r": "l1", "lam": 0.05}, "lo": [0.2, 0.25], "hi": [2.0, 2.0], "x0": [0.5, 0.6], "lin": True},
    "l1_abstol": {"reg": {"r": "l1", "lam": 0.05}, "up": {"model.abs_tol": 50.0}},
    "l1_avg": {"reg": {"r": "l1", "lam": 0.05}, "nsamples": "const2", "memo": False, "noise_amp": 0.02},
}
LIN = {"f": "lin", "A": [[1.0, 0.5], [0.2, 1.0], [0.3, 0.3]], "b": [0.1, -0.1, 0.2]}
SLOW = ("l1", "l1_bounds", "l1_abstol", "l1_avg")
LETTERS = ["x0", "best", "x0.3", "tie", "x3", "nan"]


def _mk(prob, mode, maxfun, start, salt):
    m = MODES[mode]
    npt = m.get("npt", 3)
    cfg = cfgs.base_cfg(prob, salt, npt=npt, rhobeg=0.3, rhoend=0.02, maxfun=maxfun, memo=m.get("memo", True),
                        tag_mode=mode, tag_start=start)
    if start == "at_min":
        cfg["x0"] = [1.0 + cfg["prob"].get("salt", 0) * 0.0, 1.0]
        if prob == "rosen":
            from ..bank import _s
            cfg["x0"] = [1.0 + _s(salt), (1.0 + _s(salt)) ** 2]
    if m.get("lin"):
        cfg["prob"] = dict(LIN, salt=salt)
    if m.get("x0") and start == "ordinary":
        cfg["x0"] = list(m["x0"])
    for k in ("lo", "hi", "scaling", "nsamples", "noise_amp", "objfun_has_noise", "sets", "reg"):
        if k in m:
            cfg[k] = m[k]
    if m.get("up"):
        cfg["user_params"] = cfgs.user_params(npt, m["up"])
    return cfg


def _configs(tier, salts):
    out = []
    for salt in salts:
        for mode in MODES:
            if salt != 0 and mode in SLOW:
                continue
            npt = MODES[mode].get("npt", 3)
            budgets = [1, 2, npt - 1, npt, npt + 1, 20, 60]
            if mode in SLOW:
                budgets = [1, npt, npt + 1, 12] if mode != "l1_bounds" else [npt + 1, 14]
            for prob in ("rosen", "nzr"):
                for start in ("ordinary", "at_min"):
                    if start == "at_min" and prob != "rosen":
                        continue
                    for maxfun in sorted(set(budgets)):
                        cfg = _mk(prob, mode, maxfun, start, salt)
                        depth = 0
                        if start == "ordinary" and mode not in SLOW:
                            if tier == "quick":
                                depth = 1 if (salt == 0 and maxfun in (npt + 1, 20, 60)) else 0
                            else:
                                depth = 1
                                if salt == 0 and maxfun == 20 and mode in ("plain", "soft", "hard_old", "hard_new", "avg2", "scaling") and prob == "nzr":
                                    depth = 2
                        plan = {"depth": depth, "letters": LETTERS if depth < 2 else ["best", "tie", "x3", "nan"]}
                        out.append((cfg, plan))
        # geometries whose trust-region step can increase the model, every single deviation with 'best' / 'x0.3'
        if salt == 0 or (tier == "thorough" and salt == 1):
            out += cfgs.tr_increase_cfgs(salt, restarts=("none", "hard_new", "soft"))
        # declared linear-algebra faults (every call of the geometry system answered 'singular' once)
        if salt == 0 or (tier == "thorough" and salt == 1):
            out += cfgs.linalg_fault_cfgs(salt, tier)
        # every budget for the momentum extra steps (the budget must end exactly inside one for its save site to be reached)
        if salt == 0 or (tier == "thorough" and salt == 1):
            for name, cfg in cfgs.broad_cfgs(salt=salt, budgets=tuple(range(6, 41)), probs=("rosen",), overlays=("avg",)):
                # (a point is saved there only if the exit comes after at least one sample: averaging, budget ending mid-point)
                if name in ("reg_momentum", "reg_momentum_bounds", "reg_momentum+avg", "reg_momentum_bounds+avg"):
                    out.append((cfg, {"depth": 0}))
        # the broad option bank (every documented parameter at a non-default value somewhere)
        if salt == 0 or (tier == "thorough" and salt == 1):
            for name, cfg in cfgs.broad_cfgs(salt=salt, budgets=(7, 25, 60) if tier == "quick" else (4, 7, 13, 25, 40, 60, 120),
                                             overlays=("avg", "soft")):
                depth = 1 if (tier == "thorough" and cfg.get("memo", True) and "reg" not in cfg["broad_flags"] and cfg["maxfun"] in (13, 25)) else 0
                out.append((cfg, {"depth": depth, "letters": ["best", "x3", "nan"]}))
    return out


def monitors(cfg):
    return [mon.SolutionMonitor(), mon.ReturnsMonitor()]


def classify(cfg, clause, detail):
    return {"mode": cfg.get("tag_mode"), "reg": cfg.get("reg") is not None, "scaling": bool(cfg.get("scaling")),
            "sets": bool(cfg.get("sets"))}


def run(report, tier, seed):
    salts = common.salts_for(tier, seed)
    cps = _configs(tier, salts)
    res = solvex.explore(report, MOD, cps, classify=classify)
    solvex.site_floor(report, res["tags"], exempt=SITE_EXEMPT)
    solvex.exit_floor(report, res["tags"], exempt=EXIT_EXEMPT)
    solvex.save_floor(report, res["tags"], exempt=SAVE_EXEMPT)
    tags = res["tags"]
    cov = report.coverage
    exits = [t for t in tags if t.startswith("exit:")]
    need = ["after_soft_restart", "after_hard_restart", "soln_is_x0", "soln_is_last_point"]
    missing = [t for t in need if not tags.get(t)]
    if missing or len(exits) < 6:
        raise common.HarnessError("C03 exploration is vacuous: missing %s; exits reached %s" % (missing, exits))
    cov["rule"] = ("executions of dfols.solve over mode x budget x start x problem, with every single (thorough: pair of) "
                   "answer deviation(s) from {x0,best,x0.3,tie,x3,nan} at every evaluation index; non-trivial = distinct "
                   "(flag, message, runs, last evaluation site) outcomes; the oracle groups recorded calls by the solver's "
                   "own point numbers")
    cov["distinct_nontrivial"] = cov["distinct_outcomes"]
    cov["exit_messages_reached"] = sorted(exits)
    cov["salts"] = salts
    report.assumptions += ["positions compared to 1e-12 relative (rounding of base-point arithmetic); a mislabelled point "
                           "is off by >= rhoend=0.02", "n=2; <=1 deviation (quick) / <=2 (thorough)"]


def replay(rep):
    ex = solvex.replay(rep)
    return 1 if ex.viol else 0
