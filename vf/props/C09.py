"""C09 - general convex constraints hold at every evaluation up to Dykstra's tolerance.

alphabet: all non-empty subsets of size <=3 of a bank of sets with common interior (two balls, three half-spaces incl.
          a nearly parallel pair, one box) x {no bounds, bounds} x x0 {interior, far outside, two boundary points, the same two pushed 1e-7 (translated: 1e-3) outwards} x
          {restarts off, soft} (n=2; thorough adds n=3, hard restarts and single answer deviations)
oracle  : every evaluated point after the first is byte-identical to an output of the wrapped alternating-projection
          routine; when that call stopped by its rule (sweeps < max_iter) its distance to each of the p sets is
          <= sqrt(p*tol); with bounds it lies exactly in the box; an infeasible x0 is projected first.
"""
import itertools
import numpy as np

from .. import common, solvex, cfgs, bank, monitors as mon

LEVEL = "exploration"
MOD = "C09"


def set_bank(n, salt=0):
    e = 0.004 * salt

    def vec(*first):
        v = [0.0] * n
        for i, t in enumerate(first[:n]):
            v[i] = t
        return v
    return [
        {"t": "ball", "c": vec(0.0, 0.2), "r": 1.3 + e},
        {"t": "ball", "c": vec(0.9, 0.9), "r": 1.2},
        {"t": "half", "a": vec(1.0, 1.0), "b": 1.4 + e},
        {"t": "half", "a": vec(1.0, 1.02), "b": 1.41},
        {"t": "half", "a": vec(-1.0, 0.3), "b": 0.6},
        {"t": "box", "l": [-0.9] * n, "u": [1.1 + e] * n},
    ]


INTERIOR = [0.3, 0.25, 0.2]
BOUNDS = {"lo": [-0.7, -0.8, -0.6], "hi": [0.95, 1.05, 1.2]}
# second box: its face x1 = 0.6 crosses the curved boundaries of the balls, and the "pull" objective (distance to a far
# point) puts the solution exactly at such a crossing, where Dykstra converges only in the limit
BOUNDS2 = {"lo": [-0.7, -0.8, -0.6], "hi": [0.6, 3.0, 3.0]}


def _proj_ref(sets, x, lo=None, hi=None):
    """Harness-side Dykstra (independent implementation) used only to construct boundary starting points."""
    P = [s.proj for s in sets]
    if lo is not None:
        P.append(lambda z: np.minimum(np.maximum(z, lo), hi))
    y = [np.zeros(len(x)) for _ in P]
    x = x.copy()
    for _ in range(5000):
        ch = 0.0
        for i, p in enumerate(P):
            z = x - y[i]
            xn = p(z)
            yn = xn - z
            ch += float(np.dot(yn - y[i], yn - y[i]))
            y[i] = yn
            x = xn
        if ch < 1e-28:
            break
    return x


class ConvexMonitor(solvex.Monitor):
    def start(self, ex):
        self.outs = None
        self.nlog = 0

    def _index(self, ex):
        # map output bytes -> log entries (incrementally)
        if self.outs is None:
            self.outs = {}
        for e in ex.dykstra_log[self.nlog:]:
            self.outs.setdefault(e["out"].tobytes(), []).append(e)
        self.nlog = len(ex.dykstra_log)

    def on_call(self, ex, call):
        x = call["x"]
        sets = ex.sets
        p = len(sets) + 1                      # user sets + the bound box (always appended by solve)
        self._index(ex)
        ents = self.outs.get(x.tobytes())
        if call["k"] == 1:
            x0 = ex.x0
            lo = ex.lo if ex.lo is not None else np.full(ex.n, -1e20)
            hi = ex.hi if ex.hi is not None else np.full(ex.n, 1e20)
            dset = max([s.dist(x0) for s in sets] + [0.0])
            dbox = float(np.max(np.maximum(np.maximum(lo - x0, x0 - hi), 0.0)))
            tol0 = ex.dykstra_log[0]["tol"] if ex.dykstra_log else 1e-10
            # x0 is infeasible if it is outside the bound box at all (the box is exact) or further from a user set than the
            # sqrt(p*tol) a projection output itself is allowed to be
            if dbox > 0.0 or dset > np.sqrt(p * tol0):
                ex.tags.add("x0_infeasible")
                if max(dbox, dset) <= 1e-4 * max(1.0, float(np.max(np.abs(x0)))):
                    ex.tags.add("x0_infeasible_by_a_hair")
                if not ents:
                    ex.violate("x0_projected", "x0=%s is infeasible (%.3g outside the box, %.3g from a set) but the first evaluation "
                               "at %s is not an output of the projection routine" % (x0.tolist(), dbox, dset, x.tolist()))
                    return
            else:
                if np.max(np.abs(x - x0)) > max(1e-7 * max(1.0, float(np.max(np.abs(x0)))), 2.0 * dset) and not ents:
                    ex.violate("x0_kept", "feasible x0=%s replaced by %s" % (x0.tolist(), x.tolist()))
                if not ents:
                    return
        elif not ents:
            ex.violate("is_projection_output", "call %d (%s): x=%s is not an output of the projection routine" % (
                call["k"], call["site"], x.tolist()))
            return
        # it must be an output of the routine run over the constraint sets themselves (user sets + bound box): a point that
        # only matches a call over some other list (e.g. one that also contains a trust-region ball, where the box is not
        # last) is not what the property describes
        if ents and not [e for e in ents if e["p"] == p]:
            if call["k"] > 1 or ex.tags.__contains__("x0_infeasible"):
                ex.violate("is_projection_output", "call %d (%s): x=%s only matches projection calls over %s projectors, not over the %d "
                           "constraint sets (user sets + bound box)" % (call["k"], call["site"], x.tolist(),
                                                                         sorted(set(e["p"] for e in ents)), p))
                return
        # exact box (projected last)
        if ex.lo is not None and (np.any(x < ex.lo) or np.any(x > ex.hi)):
            ex.violate("box_exact", "call %d (%s): x=%s outside the bound box" % (call["k"], call["site"], x.tolist()))
        # feasibility bound when the routine stopped by its rule (any of the calls that produced these bytes)
        stopped = [e for e in ents if e["sweeps"] < e["max_iter"] and e["p"] == p]
        if stopped:
            e = stopped[0]
            bound = np.sqrt(p * e["tol"])
            dmax = max(s.dist(x) for s in sets)
            if dmax > bound * (1 + 1e-9):
                ex.violate("feasibility", "call %d (%s): projection stopped by its rule after %d sweeps but x=%s is %.3g from a set "
                           "(bound sqrt(p*tol)=%.3g)" % (call["k"], call["site"], e["sweeps"], x.tolist(), dmax, bound))
            ex.tags.add("stopped_by_rule")
            if dmax > 0:
                ex.tags.add("inexact_but_within_bound")
        else:
            ex.tags.add("hit_sweep_cap")
        if any(s.dist(x) == 0.0 and s.t != "box" and _on_boundary(s, x) for s in sets):
            ex.tags.add("eval_on_set_boundary")

    def on_end(self, ex):
        if ex.outcome == "raised" and not mon.raise_is_allowed(ex):
            ex.violate("returns", "solve raised %s: %s" % (type(ex.exc).__name__, ex.exc))
        elif ex.outcome == "returned" and ex.soln.flag == mon.INPUT_ERROR:
            ex.violate("returns", "input error for a valid configuration: %s" % ex.soln.msg)
        ex.tags.add("nsets=%d" % len(ex.sets))
        if ex.soft_restarts:
            ex.tags.add("restarted")


FEATURES = [
    ("soft_inc", cfgs.RESTART_MODES["soft_inc"], 2e-2),
    ("soft_inc_amt2", dict(cfgs.RESTART_MODES["soft"], **{"restarts.increase_npt": True, "restarts.increase_npt_amt": 2,
                                                          "restarts.max_npt_plus": 3}), 2e-2),
    ("extra_geom", {"regression.num_extra_steps": 1}, 1e-3),
    ("extra_momentum", {"regression.num_extra_steps": 1, "regression.momentum_extra_steps": True}, 1e-3),
    ("random_init", {"init.random_initial_directions": True}, 1e-3),
    ("random_init_batch", {"init.random_initial_directions": True, "init.run_in_parallel": True}, 1e-3),
]


def _hair(bp, far, eps):
    return bp + eps * (far - bp) / max(np.linalg.norm(far - bp), 1e-300)


def _on_boundary(s, x):
    if s.t == "ball":
        return abs(np.linalg.norm(x - s.c) - s.r) < 1e-9
    if s.t == "half":
        return abs(s.a.dot(x) - s.b) < 1e-9
    return False


SITE_EXEMPT = {
    "initialise_coordinate_directions#2": "the branch taken without projections",
    "add_new_direction_while_growing#0": "a growing point set cannot be combined with projections (known finding C07: RuntimeError)",
    "geometry_step#0/check_and_fix_geometry@0": "a growing point set cannot be combined with projections (known finding C07)",
}


def monitors(cfg):
    return [ConvexMonitor()]


def classify(cfg, clause, detail):
    return {"nsets": len(cfg.get("sets", [])), "bounds": cfg.get("lo") is not None}


def _configs(tier, salts):
    out = []
    for salt in salts:
        for n in ((2,) if tier == "quick" else (2, 3)):
            specs = set_bank(n, salt)
            subsets = [c for L in (1, 2, 3) for c in itertools.combinations(range(len(specs)), L)]
            if salt != 0 or n == 3:
                subsets = [c for c in subsets if len(c) >= 2][::2]
            for sub in subsets:
                sets = [bank.CSet(specs[i]) for i in sub]
                for bnd in (False, True, 2):
                    B = BOUNDS2 if bnd == 2 else BOUNDS
                    lo = np.array(B["lo"][:n]) if bnd else None
                    hi = np.array(B["hi"][:n]) if bnd else None
                    far_a = np.array([3.0, 2.5, -2.0][:n])
                    far_b = np.array([-3.0, -1.0, 2.0][:n])
                    starts = {"interior": np.array(INTERIOR[:n]), "far": far_a,
                              "boundary_a": _proj_ref(sets, far_a, lo, hi), "boundary_b": _proj_ref(sets, far_b, lo, hi)}
                    # the two boundary points pushed outwards by a hair (1e-7): infeasible, but "close" to their projection
                    for nm, far in (("hair_a", far_a), ("hair_b", far_b)):
                        bp = starts["boundary_" + nm[-1]]
                        starts[nm] = bp + 1e-7 * (far - bp) / max(np.linalg.norm(far - bp), 1e-300)
                    for sname, x0 in starts.items():
                        for rmode in (("none", "soft") if tier == "quick" else ("none", "soft", "hard_new")):
                            if sname.startswith("hair") and rmode != "none":
                                continue
                            for prob in (("rosen", "nzr", "pull") if n == 2 else ("nzr3", "pull")):
                                if prob == "nzr" and (salt != 0 or tier == "quick") and len(sub) != 2:
                                    continue
                                if (bnd == 2) != (prob == "pull") and not (prob == "pull" and bnd is False and len(sub) >= 2):
                                    continue
                                pspec = {"f": prob, "salt": salt}
                                if prob == "pull":
                                    pspec = {"f": "lin", "A": np.eye(n).tolist(), "b": [2.0] * n, "salt": salt}
                                cfg = {"prob": pspec, "x0": x0.tolist(), "sets": [specs[i] for i in sub],
                                       "rhobeg": 0.2, "rhoend": 1e-3, "maxfun": 30, "memo": True, "record_dykstra": True,
                                       "tag_start": sname, "tag_restart": rmode,
                                       "user_params": cfgs.user_params(n + 1, cfgs.RESTART_MODES[rmode])}
                                if bnd:
                                    cfg["lo"], cfg["hi"] = lo.tolist(), hi.tolist()
                                depth = 0
                                if tier == "thorough" and salt == 0 and n == 2 and len(sub) == 2 and sname in ("interior", "boundary_a") and rmode == "none":
                                    depth = 1
                                out.append((cfg, {"depth": depth, "letters": ["x0.3", "x3"]}))
        # the same geometry translated far from the origin (the projection routine and the solver are translation invariant, so
        # every clause must hold there too): subsets of two and three sets, 'pull' objective, bounds on/off
        if salt == 0 or (tier == "thorough" and salt == 1):
            from .C15 import translate
            for n in ((2,) if tier == "quick" else (2, 3)):
                off = np.array([300.0, 400.0, -200.0][:n])
                specs = set_bank(n, salt)
                for sub in [c for L in (2, 3) for c in itertools.combinations(range(len(specs)), L)][:: (2 if tier == "quick" else 1)]:
                    sets0 = [bank.CSet(specs[i]) for i in sub]
                    for bnd in (False, 2):
                        lo = np.array(BOUNDS2["lo"][:n]) if bnd else None
                        hi = np.array(BOUNDS2["hi"][:n]) if bnd else None
                        # three 'pull' targets, so that for every pair of sets some target lies in the cone of their outward
                        # normals and the solution sits at their common vertex (acute corners converge slowly)
                        targets = [np.full(n, 2.0), np.array([-0.2, 4.5, 1.0][:n]), np.array([-3.0, -1.0, 2.0][:n])]
                        for sname, x00, tgt in [(nm, xx, t) for (nm, xx) in (("interior", np.array(INTERIOR[:n])), ("far", np.array([3.0, 2.5, -2.0][:n])),
                                                                          ("boundary_a", _proj_ref(sets0, np.array([3.0, 2.5, -2.0][:n]), lo, hi)),
                                                                          ("hair_a", _hair(_proj_ref(sets0, np.array([3.0, 2.5, -2.0][:n]), lo, hi),
                                                                                           np.array([3.0, 2.5, -2.0][:n]), 1e-3)))
                                                for t in (targets if nm == "interior" else targets[:1])]:
                            cfg = {"prob": {"f": "lin", "A": np.eye(n).tolist(), "b": (tgt + off).tolist(), "salt": salt},
                                   "x0": (x00 + off).tolist(), "sets": [translate(specs[i], off) for i in sub],
                                   "rhobeg": 0.2, "rhoend": 1e-3, "maxfun": 30, "memo": True, "record_dykstra": True,
                                   "tag_start": "translated/" + sname, "tag_restart": "none"}
                            if bnd:
                                cfg["lo"], cfg["hi"] = (lo + off).tolist(), (hi + off).tolist()
                            out.append((cfg, {"depth": 0}))
        # every evaluation site that exists with projections: options that select the other sites (points added when a soft
        # restart increases npt, extra regression steps of both kinds, random initial directions, batch initialisation)
        if salt == 0 or (tier == "thorough" and salt == 1):
            n = 2
            specs = set_bank(n, salt)
            for sub in [c for L in (2, 3) for c in itertools.combinations(range(len(specs)), L)][::3]:
                sets0 = [bank.CSet(specs[i]) for i in sub]
                for bnd in (False, 2):
                    lo = np.array(BOUNDS2["lo"][:n]) if bnd else None
                    hi = np.array(BOUNDS2["hi"][:n]) if bnd else None
                    far_a = np.array([3.0, 2.5])
                    for sname, x0 in (("interior", np.array(INTERIOR[:n])), ("boundary_a", _proj_ref(sets0, far_a, lo, hi))):
                        for fname, up, rhoend in FEATURES:
                            cfg = {"prob": {"f": "lin", "A": np.eye(n).tolist(), "b": [2.0] * n, "salt": salt},
                                   "x0": x0.tolist(), "sets": [specs[i] for i in sub],
                                   "rhobeg": 0.2, "rhoend": rhoend, "maxfun": 45, "memo": True, "record_dykstra": True,
                                   "tag_start": "feature/" + sname, "tag_restart": fname,
                                   "user_params": cfgs.user_params(n + 1, up)}
                            if bnd:
                                cfg["lo"], cfg["hi"] = lo.tolist(), hi.tolist()
                            out.append((cfg, {"depth": 0}))
        # geometries whose trust-region step can increase the model, with and without hard restarts from a fresh evaluation
        # of the best point (the restart point is evaluated as it is stored)
        if salt == 0 or (tier == "thorough" and salt == 1):
            for cfg, plan in cfgs.tr_increase_cfgs(salt, restarts=("none", "hard_new", "hard_old")):
                if not cfg.get("sets"):
                    continue
                out.append((dict(cfg, record_dykstra=True, tag_start="trinc", tag_restart=cfg["tag_mode"]), plan))
        # declared linear-algebra faults with projections (points evaluated by the recovering soft restart)
        if salt == 0 or (tier == "thorough" and salt == 1):
            for cfg, plan in cfgs.linalg_fault_cfgs(salt, tier, modes=("sets_soft",)):
                out.append((dict(cfg, record_dykstra=True, tag_start="la", tag_restart="la"), plan))
        # projection modes of the broad option bank (user Dykstra parameters, restarts, regulariser + projections)
        if salt == 0 or (tier == "thorough" and salt == 1):
            for name, cfg in cfgs.broad_cfgs(salt=salt, require=("sets",), budgets=(12, 35), reg_budgets=(8,)):
                cfg = dict(cfg, record_dykstra=True, tag_start="broad", tag_restart="broad")
                out.append((cfg, {"depth": 0}))
    return out


def run(report, tier, seed):
    salts = common.salts_for(tier, seed)
    cps = _configs(tier, salts)
    res = solvex.explore(report, MOD, cps, classify=classify)
    tags = res["tags"]
    cov = report.coverage
    need = ["x0_infeasible", "x0_infeasible_by_a_hair", "stopped_by_rule", "inexact_but_within_bound", "eval_on_set_boundary", "nsets=3", "restarted"]
    missing = [t for t in need if not tags.get(t)]
    if missing:
        raise common.HarnessError("C09 exploration is vacuous: %s never occurred" % missing)
    solvex.site_floor(report, tags, exempt=SITE_EXEMPT)
    cov["rule"] = ("one execution per (subset of the set bank, bounds on/off, starting point, restart mode, function); every "
                   "evaluated point is matched by its bytes against the outputs of the wrapped projection routine; "
                   "non-trivial = executions with an evaluation on the boundary of a set")
    cov["distinct_nontrivial"] = int(tags.get("eval_on_set_boundary", 0))
    cov["hit_sweep_cap_executions"] = tags.get("hit_sweep_cap", 0)
    cov["salts"] = salts
    report.assumptions += ["sweeps counted through the first projector of each call; a call with sweeps == max_iter is treated as "
                           "'hit the cap' (only the exact-box clause is applied)", "n=2 (quick), n<=3 (thorough); maxfun=30"]


def replay(rep):
    ex = solvex.replay(rep)
    return 1 if ex.viol else 0
