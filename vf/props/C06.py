"""C06 - convex regularised least squares converges to the regularised optimum.

alphabet: shape x lambda decades x regulariser {L1 (soft threshold), L2 norm (block prox)} x box pattern {none, inactive,
          active at the optimum} x x0 {origin, ordinary} x calling convention {closures, argsh/argsprox} x scaling
oracle  : L1: exact F* by enumeration of all sign/active patterns (KKT solve per pattern); L2 norm: accelerated proximal
          gradient to a 1e-15 fixed point polished by SLSQP, cross-checked against the exact oracle on the L1 cases.
          The wrapper records the extra positional arguments received by h and prox on every call.
"""
import numpy as np

from .. import common, gridx, solvex, oracles, monitors as mon

LEVEL = "exploration"
MOD = "vf.props.C06"

SHAPES_Q = [(2, 1), (3, 2), (4, 3)]
LAMS = [1e-3, 1e-2, 1e-1, 1.0]


def cases(tier, salts):
    out = []
    shapes = SHAPES_Q + ([(6, 4), (5, 2)] if tier == "thorough" else [])
    for salt in salts:
        for (m, n) in shapes:
            for lam in LAMS:
                for reg in ("l1", "l2"):
                    for box in ("none", "inactive", "active"):
                        for x0k in ("origin", "ordinary"):
                            for conv in ("closure", "args"):
                                if salt != 0 and (conv == "args" or x0k == "origin") and tier == "quick":
                                    continue
                                out.append({"m": m, "n": n, "lam": lam, "reg": reg, "box": box, "x0": x0k, "conv": conv,
                                            "scaling": False, "salt": salt})
            # strong regularisation (lambda relative to ||2 A'b||_inf: the optimum is heavily shrunk, or the origin itself),
            # started from the unregularised least-squares solution, where every good step *increases* sum(r^2)
            for lam in (("rel0.7", "rel1.5", "rel4") if tier == "quick" else ("rel0.3", "rel0.7", "rel1.5", "rel4")):
                for reg in ("l1", "l2"):
                    for box in ("none", "inactive", "active"):
                        for x0k in ("ls", "ordinary"):
                            if tier == "quick" and (salt != 0 and (x0k != "ls" or box == "inactive")):
                                continue
                            if lam == "rel4" and x0k != "ls":
                                continue
                            out.append({"m": m, "n": n, "lam": lam, "reg": reg, "box": box, "x0": x0k, "conv": "closure",
                                        "scaling": False, "salt": salt})
            # square consistent systems started at the exact solution of A x = b: the residual at x0 is zero (to rounding), the
            # objective sum(r^2)+h(x0) is not - the 'sufficiently small at x0' exit must not fire
            if (m, n) == shapes[1]:
                for lam in (1e-2, 1.0, "rel0.7"):
                    for reg in ("l1", "l2"):
                        for box in ("none", "inactive"):
                            out.append({"m": n, "n": n, "lam": lam, "reg": reg, "box": box, "x0": "ls", "conv": "closure",
                                        "scaling": False, "salt": salt})
            # two samples per point (the documented nsamples argument; wave i: the stored objective of a RE-sampled point
            # took h at the incumbent instead of at the point itself - invisible unless a point is sampled more than once)
            if salt == 0:
                for lam in (LAMS[-1], "rel0.7", "rel1.5"):
                    for reg in ("l1", "l2"):
                        for box in ("none", "active"):
                            for x0k in ("ordinary", "ls"):
                                out.append({"m": m, "n": n, "lam": lam, "reg": reg, "box": box, "x0": x0k, "conv": "closure",
                                            "scaling": False, "salt": salt, "ns": "const2"})
            for lam in LAMS:
                for reg in ("l1", "l2"):
                    # regulariser + internal scaling (documented limitation: recorded as a known finding)
                    if salt == 0:
                        for box in ("inactive", "active"):
                            out.append({"m": m, "n": n, "lam": lam, "reg": reg, "box": box, "x0": "ordinary", "conv": "closure",
                                        "scaling": True, "salt": salt})
    return out


def reference(A, b, reg, lam, lo, hi):
    f1, x1 = oracles.prox_grad_reference(A, b, reg, lam, lo, hi)
    best = (f1, x1)
    if reg == "l1":
        f2, x2 = oracles.lasso_box_enum(A, b, lam, lo, hi)
        if abs(f1 - f2) > 1e-7 * (1 + abs(f2)):
            raise common.HarnessError("regularised oracles disagree: prox-gradient %r vs enumeration %r" % (f1, f2))
        if f2 < best[0]:
            best = (f2, x2)
    else:
        from scipy.optimize import minimize

        def F(z):
            r = A.dot(z) - b
            return float(r.dot(r)) + lam * float(np.sqrt(z.dot(z) + 1e-300))
        bnds = [(None if l < -1e19 else l, None if h > 1e19 else h) for l, h in zip(lo, hi)]
        for start in (x1, np.minimum(np.maximum(np.linalg.lstsq(A, b, rcond=None)[0], lo), hi)):
            try:
                res = minimize(F, start, method="SLSQP", bounds=bnds, options={"ftol": 1e-15, "maxiter": 500})
                z = np.minimum(np.maximum(res.x, lo), hi)
                if F(z) < best[0]:
                    best = (F(z), z)
            except Exception:  # noqa: BLE001
                pass
    return best


def lam_of(case, A, b):
    """lambda of a case: a number, or 'rel<t>' = t * ||2 A'b||_inf (for the L1 norm the optimum is the origin when t >= 1)."""
    lam = case["lam"]
    if isinstance(lam, str):
        return float(lam[3:]) * float(np.max(np.abs(2.0 * A.T.dot(b))))
    return float(lam)


def build(case):
    m, n = case["m"], case["n"]
    A, b = oracles.lin_bank(m, n, 3.0, 0, case["salt"])
    b = b + 0.8                      # keep the regularised optimum away from the origin for small lambda
    inf_lo, inf_hi = np.full(n, -1e20), np.full(n, 1e20)
    lam = lam_of(case, A, b)
    f0, xbar = reference(A, b, case["reg"], lam, inf_lo, inf_hi)
    lo, hi = inf_lo.copy(), inf_hi.copy()
    if case["box"] == "inactive":
        lo, hi = xbar - 1.5, xbar + 1.5
    elif case["box"] == "active":
        lo, hi = xbar - 1.5, xbar + 1.5
        lo[0] = xbar[0] + 0.2
        hi[0] = xbar[0] + 1.9
        if n > 1:
            hi[n - 1] = xbar[n - 1] - 0.15
            lo[n - 1] = xbar[n - 1] - 1.9
    if case["x0"] == "origin":
        x0 = np.zeros(n)
    elif case["x0"] == "ls":         # unregularised least-squares solution, moved into the box
        x0 = np.minimum(np.maximum(np.linalg.lstsq(A, b, rcond=None)[0], lo), hi)
    else:
        x0 = xbar + 0.45 * np.array([(-1.0) ** j for j in range(n)])
    return A, b, lo, hi, x0, lam


def check_case(case):
    A, b, lo, hi, x0, lam = build(case)
    n = case["n"]
    bounded = case["box"] != "none"
    Fstar, xstar = reference(A, b, case["reg"], lam, lo, hi)
    cfg = {"prob": {"f": "lin", "A": A.tolist(), "b": b.tolist(), "salt": 0}, "x0": x0.tolist(), "memo": True,
           "reg": {"r": case["reg"], "lam": lam, "args": case["conv"] == "args"}}
    if case.get("ns"):
        cfg["nsamples"] = case["ns"]
    if bounded:
        cfg["lo"], cfg["hi"] = lo.tolist(), hi.tolist()
        if case["scaling"]:
            cfg["scaling"] = True
    ex = solvex.Execution(cfg, monitors=[mon.BoundsMonitor()]).run()
    v = []
    tags = ["conv:" + case["conv"], "reg:" + case["reg"], "box:" + case["box"]] + (["resampled"] if case.get("ns") else [])
    if float(np.sum((A.dot(x0) - b) ** 2)) <= 1e-12:
        tags.append("zero_residual_at_x0")
    if isinstance(case["lam"], str):
        tags.append("strong_reg")
        if float(np.sum((A.dot(x0) - b) ** 2)) < float(np.sum((A.dot(xstar) - b) ** 2)):
            tags.append("start_has_smaller_residual_than_optimum")
        if float(np.max(np.abs(xstar))) < 1e-9:
            tags.append("optimum_is_origin")
    if ex.outcome != "returned":
        return [("returns", "solve did not return: %s %s: %s" % (ex.outcome, type(ex.exc).__name__, ex.exc))], tags
    s = ex.soln
    if s.flag == mon.INPUT_ERROR:
        return [("returns", "input error for a valid problem: %s" % s.msg)], tags
    for c, d in ex.viol:
        v.append(("feasible", d))
    # extra arguments passed through unchanged on every call
    log = ex.reg["log"]
    want_h = (lam, "for-h") if case["conv"] == "args" else ()
    want_p = ("for-prox", lam, 3) if case["conv"] == "args" else ()
    bad_h = [a for a in log["h"] if a != want_h]
    bad_p = [a for a in log["prox"] if a != want_p]
    if bad_h:
        v.append(("args_passthrough", "h received extra arguments %s on %d of %d calls, expected %s on every call" % (bad_h[0], len(bad_h), len(log["h"]), want_h)))
    if bad_p:
        v.append(("args_passthrough", "prox received extra arguments %s on %d of %d calls, expected %s on every call" % (bad_p[0], len(bad_p), len(log["prox"]), want_p)))
    if not log["h"] or not log["prox"]:
        v.append(("args_passthrough", "h (%d calls) or prox (%d calls) never called" % (len(log["h"]), len(log["prox"]))))
    if s.flag != mon.SUCCESS:
        v.append(("success", "flag %s (%s) after %d evaluations" % (s.flag, s.msg, s.nf)))
    x = np.asarray(s.x)
    r = A.dot(x) - b
    Fx = float(r.dot(r)) + lam * float(np.sum(np.abs(x)) if case["reg"] == "l1" else np.sqrt(x.dot(x)))
    if abs(Fx - s.obj) > 1e-9 * (1 + abs(Fx)):
        v.append(("obj_consistent", "soln.obj=%r but sum(r^2)+h at soln.x is %r" % (s.obj, Fx)))
    gap = s.obj - Fstar
    if not gap <= 1e-3 * (1 + Fstar):
        v.append(("optimal", "obj=%.10g but the regularised minimum is %.10g (gap %.3g > 1e-3(1+F*)) [%s, nf=%d]" % (
            s.obj, Fstar, gap, s.msg, s.nf)))
    # sanity of the oracle itself: judged on the objective recomputed here at soln.x, never on the solver's own number
    if Fx - Fstar < -1e-7 * (1 + Fstar) and np.all(x >= lo) and np.all(x <= hi):
        raise common.HarnessError("oracle is not optimal on case %r: F(soln.x)=%r < %r" % (case, Fx, Fstar))
    if np.any(np.abs(xstar - lo) < 1e-7) or np.any(np.abs(xstar - hi) < 1e-7):
        tags.append("active_at_optimum")
    if case["reg"] == "l1" and np.any(np.abs(xstar) < 1e-9):
        tags.append("sparse_optimum")
    tags.append("gap<=%s" % ("1e-6" if gap <= 1e-6 * (1 + Fstar) else "1e-4" if gap <= 1e-4 * (1 + Fstar) else "1e-3" if gap <= 1e-3 * (1 + Fstar) else "FAIL"))
    return v, tags


def classify(case, clause, detail):
    return {"scaling": bool(case["scaling"]), "reg": case["reg"], "conv": case["conv"]}


def run(report, tier, seed):
    salts = common.salts_for(tier, seed)
    cs = cases(tier, salts)
    tags = gridx.run_grid(report, MOD, cs, classify=classify, chunk=3)
    cov = report.coverage
    need = ["conv:args", "conv:closure", "reg:l1", "reg:l2", "active_at_optimum", "sparse_optimum", "strong_reg",
            "start_has_smaller_residual_than_optimum", "optimum_is_origin", "zero_residual_at_x0"]
    missing = [t for t in need if not tags.get(t)]
    if missing:
        raise common.HarnessError("C06 grid is vacuous: %s never occurred" % missing)
    cov["rule"] = ("Cartesian product of shapes x lambda x regulariser x box pattern x x0 x calling convention (+ scaling "
                   "rows); non-trivial = cases whose optimum is sparse or has an active bound")
    cov["distinct_nontrivial"] = int(tags.get("active_at_optimum", 0) + tags.get("sparse_optimum", 0))
    cov["salts"] = salts
    report.assumptions += ["data from a fixed well-conditioned bank (cond 3); n<=3 quick / n<=4 thorough; the continuous "
                           "quantifier is covered only over this bank; the margin to the 1e-3 tolerance is reported in tags"]


def replay(rep):
    v = gridx.replay_case(MOD, rep["case"])
    return 1 if v else 0
