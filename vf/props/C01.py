"""C01 - bound constraints are never violated at any evaluation point.

alphabet: per-coordinate (bound pattern x x0 placement) x scaling x solver mode x base function (x answer deviations)
bound   : n<=2 (thorough n<=3), maxfun=60, <=1 answer deviation (thorough)
oracle  : exact componentwise lo <= x <= hi on every argument received by the recording wrapper and on soln.x
A second, component-level layer probes Model.as_absolute_coordinates / Controller.evaluate_objective at every step
within +-4 ulp of each shifted bound through base-shift histories (see _component_layer).
"""
import itertools
import numpy as np

from .. import common, solvex, cfgs, monitors as mon

LEVEL = "exploration"
MOD = "C01"
SITE_EXEMPT = {}     # evaluation sites this check cannot reach (site -> reason); see solvex.site_floor

RHOBEG = 0.1
PAIRS = [(-1.0 / 3.0, 0.9), (0.1, 1.7), (-2.0, 0.3 + 0.6)]


def _coord_alphabet(salt):
    """(lo, hi, x0, tag) per coordinate.  Non-representable endpoints; placements on both sides of every switch."""
    e = [0.0, 1e-3, -7e-4, 3e-3, 1.3e-3, -2.1e-3, 5e-4, -1e-3][salt % 8]
    out = []
    for (lo, hi) in PAIRS:
        lo, hi = lo + e, hi + e
        mid = lo + 0.37 * (hi - lo)
        out += [
            (lo, hi, mid, "two/interior"), (lo, hi, lo, "two/on_lo"), (lo, hi, hi, "two/on_hi"),
            (lo, hi, float(np.nextafter(lo, np.inf)), "two/ulp_lo"), (lo, hi, float(np.nextafter(hi, -np.inf)), "two/ulp_hi"),
            (lo, hi, lo + 0.005 * RHOBEG, "two/near_lo"), (lo, hi, hi - 0.005 * RHOBEG, "two/near_hi"),
            (lo, hi, lo - 0.7, "two/below"), (lo, hi, hi + 0.7, "two/above"),
        ]
        if (lo, hi) == (PAIRS[0][0] + e, PAIRS[0][1] + e):
            # infeasible by less than any tolerance a comparison might use (wave j: with projections the box is one more
            # projection and the ordinary clamp of x0 is switched off)
            out += [(lo, hi, float(np.nextafter(lo, -np.inf)), "two/ulp_below"), (lo, hi, hi + 1e-9, "two/hair_above"),
                    (lo, hi, lo - 4e-6, "two/hair_below")]
    lo, hi = PAIRS[0][0] + e, PAIRS[0][1] + e
    out += [(lo, None, lo + 0.41, "lower/interior"), (lo, None, lo, "lower/on"), (lo, None, float(np.nextafter(lo, np.inf)), "lower/ulp"),
            (lo, None, lo + 0.02 * RHOBEG, "lower/near"), (lo, None, lo - 0.5, "lower/below")]
    out += [(None, hi, hi - 0.41, "upper/interior"), (None, hi, hi, "upper/on"), (None, hi, float(np.nextafter(hi, -np.inf)), "upper/ulp"),
            (None, hi, hi - 0.02 * RHOBEG, "upper/near"), (None, hi, hi + 0.5, "upper/above")]
    out += [(None, None, -1.2, "free")]
    return out


REDUCED_TAGS = ["two/interior", "two/on_hi", "two/near_lo", "lower/below", "upper/near", "free"]
HAIR_TAGS = ["two/ulp_below", "two/hair_above", "two/hair_below"]

MODES = {
    "default": {},
    "npt2n1": {"npt": "2n+1"},
    "growing": {"user_params": {"growing.ndirs_initial": 1}},
    "avg2": {"nsamples": "const2", "memo": False},
    "soft": {"user_params": cfgs.RESTART_MODES["soft"], "rhoend": 0.01},
    "hard": {"user_params": cfgs.RESTART_MODES["hard_new"], "rhoend": 0.01},
    "soft_inc": {"user_params": cfgs.RESTART_MODES["soft_inc"], "rhoend": 0.01},
    "momentum": {"npt": "2n+1", "user_params": {"regression.num_extra_steps": 1, "regression.momentum_extra_steps": True}},
    "randinit": {"user_params": {"init.random_initial_directions": True}},
    "noise": {"objfun_has_noise": True, "memo": False},
    "l1": {"reg": {"r": "l1", "lam": 0.1}, "maxfun": 25},
    # an inactive user projection: the bounds are then enforced through the projection machinery instead of the box code
    "proj": {"sets_ball_radius": 50.0},
}


def _mk(prob, n, coords, mode, scaling, salt, maxfun=60):
    m = MODES[mode]
    npt = n + 1 if m.get("npt") is None else 2 * n + 1
    lo = [c[0] for c in coords]
    hi = [c[1] for c in coords]
    cfg = {"prob": {"f": prob, "salt": salt}, "x0": [c[2] for c in coords],
           "lo": None if all(v is None for v in lo) else lo, "hi": None if all(v is None for v in hi) else hi,
           "npt": npt, "rhobeg": RHOBEG, "rhoend": m.get("rhoend", 1e-6), "maxfun": m.get("maxfun", maxfun),
           "memo": m.get("memo", True), "scaling": scaling, "tag_mode": mode,
           "tag_place": [c[3] for c in coords]}
    up = dict(m.get("user_params", {}))
    if up:
        cfg["user_params"] = cfgs.user_params(npt, up)
    for k in ("nsamples", "objfun_has_noise", "reg"):
        if k in m:
            cfg[k] = m[k]
    if "sets_ball_radius" in m:
        cfg["sets"] = [{"t": "ball", "c": [0.0] * n, "r": m["sets_ball_radius"]}]
    return cfg


def _configs(tier, salts):
    out = []
    for salt in salts:
        alpha = _coord_alphabet(salt)
        red = [c for c in alpha if c[3] in REDUCED_TAGS and (c[0], c[1]) in ((alpha[0][0], alpha[0][1]), (alpha[-11][0], None), (None, alpha[-6][1]), (None, None))]
        # reduced alphabet: one representative per reduced tag (first occurrence)
        seen, red2 = set(), []
        for c in alpha:
            if c[3] in REDUCED_TAGS and c[3] not in seen:
                seen.add(c[3])
                red2.append(c)
        red = red2
        modes = list(MODES) if salt == 0 else ["default", "soft", "momentum", "proj"]
        for mode in modes:
            probs2 = ["rosen", "nzr"] if mode != "l1" else ["nzr"]
            # n = 1
            if mode not in ("l1",):
                for c in alpha:
                    for sc in ([False, True] if c[3].startswith("two") and mode != "proj" else [False]):
                        out.append((_mk("one", 1, [c], mode, sc, salt, maxfun=40), {"depth": 0}))
            # n = 2
            for prob in probs2:
                if mode == "l1":
                    combos = [(a, b) for a in red for b in red][:18]
                elif tier == "quick":
                    combos = [(a, b) for a in alpha for b in red] + [(b, a) for a in alpha for b in red if a[3] not in REDUCED_TAGS]
                    if prob == "nzr":
                        combos = combos[::2]
                else:
                    combos = [(a, b) for a in alpha for b in alpha]
                for a, b in combos:
                    two = a[3].startswith("two") and b[3].startswith("two")
                    for sc in ([False, True] if two and mode not in ("l1", "proj") else [False]):
                        plan = {"depth": 0}
                        if tier == "thorough" and salt == 0 and mode in ("default", "soft") and a[3] in REDUCED_TAGS and b[3] in REDUCED_TAGS:
                            plan = {"depth": 1, "letters": ["x0.3", "x3"]}
                        out.append((_mk(prob, 2, [a, b], mode, sc, salt), plan))
            # scaling requested although a side is missing: the solver ignores the request (with a warning) and must still
            # honour the bounds that are there
            if mode in ("default", "soft") and salt == 0:
                for a, b in [(a, b) for a in red for b in red]:
                    if not (a[3].startswith("two") and b[3].startswith("two")):
                        cfg = _mk("rosen", 2, [a, b], mode, True, salt)
                        cfg["tag_place"] = cfg["tag_place"] + ["scaling_ignored"]
                        out.append((cfg, {"depth": 0}))
            # n = 3 (thorough)
            if tier == "thorough" and mode in ("default", "npt2n1", "soft", "momentum", "growing") and salt in (0, 1):
                for a, b, c in itertools.product(red, red, red):
                    two = all(t[3].startswith("two") for t in (a, b, c))
                    for sc in ([False, True] if two else [False]):
                        out.append((_mk("rosen3", 3, [a, b, c], mode, sc, salt, maxfun=70), {"depth": 0}))
        if salt == 0 or (tier == "thorough" and salt == 1):
            e = [0.0, 1e-3, -7e-4, 3e-3, 1.3e-3, -2.1e-3, 5e-4, -1e-3][salt % 8]
            for name, cfg in cfgs.broad_cfgs(salt=salt, budgets=(30, 70), reg_budgets=(10,)):
                if cfg.get("lo") is None and cfg.get("hi") is None and not cfg.get("sets") and cfg.get("rhobeg", 0.3) <= 0.6:
                    n = len(cfg["x0"])
                    cfg["lo"] = [(-1.0 / 3.0 + e) * 4, 0.1 + e, -2.0][:n] if n > 1 else [-1.0 / 3.0 + e]
                    cfg["hi"] = [0.9 + e, 1.7 + e, 0.3 + 0.6][:n] if n > 1 else [2.5]
                    if abs(cfg["x0"][0]) > 10:
                        cfg["lo"] = [c - 4.0 / 3.0 for c in cfg["x0"]]
                        cfg["hi"] = [c + 0.9 for c in cfg["x0"]]
                cfg["tag_mode"] = "default"
                cfg["tag_place"] = ["broad/" + name]
                out.append((cfg, {"depth": 0}))
            # declared linear-algebra faults next to active bounds (points evaluated by the recovering restarts)
            for cfg, plan in cfgs.linalg_fault_cfgs(salt, tier, probs=("rosen",)):
                if cfg.get("sets") or cfg.get("reg"):
                    continue
                n = len(cfg["x0"])
                if cfg.get("lo") is None:
                    cfg["lo"] = [(-1.0 / 3.0 + e) * 4, 0.1 + e, -2.0][:n]
                    cfg["hi"] = [0.9 + e, 1.7 + e, 0.3 + 0.6][:n]
                cfg["tag_place"] = [cfg["tag_mode"]]
                cfg["tag_mode"] = "default"
                out.append((cfg, plan))
    return out


class Tagger(solvex.Monitor):
    def on_end(self, ex):
        if ex.outcome == "raised" and not mon.raise_is_allowed(ex):
            ex.violate("returns", "solve raised %s: %s" % (type(ex.exc).__name__, ex.exc))
        elif ex.outcome == "returned" and ex.soln.flag == mon.INPUT_ERROR:
            ex.violate("returns", "input error for a valid configuration: %s" % ex.soln.msg)
        ex.tags.add("mode:" + ex.cfg["tag_mode"])
        if ex.cfg.get("scaling"):
            ex.tags.add("scaled")


def monitors(cfg):
    return [mon.BoundsMonitor(), Tagger()]


def classify(cfg, clause, detail):
    return {"mode": cfg.get("tag_mode"), "scaling": bool(cfg.get("scaling")), "reg": cfg.get("reg") is not None}


# ---------------------------------------------------------------------------------------------------------------
# component layer: ulp neighbourhoods of every bound through base-shift histories
# ---------------------------------------------------------------------------------------------------------------
def _component_layer(report, tier, salts):
    import dfols.model as M
    import dfols.controller as C
    import dfols.params as P
    from dfols.util import apply_scaling
    n_probe = 0
    n_on = 0
    viol = []
    samples = []
    for salt in salts:
        alpha = [c for c in _coord_alphabet(salt) if c[3] in ("two/interior", "two/on_lo", "two/below")]
        pairs = sorted(set((c[0], c[1]) for c in alpha))
        for (lo, hi) in pairs:
            for scaling in (False, True):
                xl = np.array([lo, lo]); xu = np.array([hi, hi])
                sc = (xl.copy(), xu - xl) if scaling else None
                sxl, sxu = apply_scaling(xl, sc), apply_scaling(xu, sc)
                x0s = [sxl + 0.37 * (sxu - sxl), sxl.copy(), sxu.copy()]
                shifts_menu = ["to_lo", "to_hi", "nonrep", "xopt"]
                for x0 in x0s:
                    for hist in [h for L in range(0, 4 if tier == "thorough" else 3) for h in itertools.product(shifts_menu, repeat=L)]:
                        # a real controller, built by the real solve() (so scaling is set up exactly as in production)
                        x0u = (x0 if sc is None else sc[0] + x0 * sc[1])
                        x0u = np.minimum(np.maximum(x0u, xl), xu)
                        ex0 = solvex.Execution({"prob": {"f": "const", "n": 2, "salt": 0}, "x0": x0u.tolist(), "lo": xl.tolist(),
                                                "hi": xu.tolist(), "scaling": scaling, "maxfun": 1, "rhobeg": 0.1, "memo": False}).run()
                        if not ex0.controllers:
                            raise common.HarnessError("component layer: solve() built no controller (%s)" % ex0.describe())
                        ctl = ex0.controllers[0]
                        ctl.maxfun = 10 ** 9
                        model = ctl.model
                        params = P.ParameterList(2, 3, 1000)
                        recorded = ex0.calls
                        for sname in hist:
                            if sname == "to_lo":
                                sh = model.sl.copy()
                            elif sname == "to_hi":
                                sh = model.su.copy()
                            elif sname == "nonrep":
                                sh = np.array([0.1, -0.3]) * (sxu - sxl) * 0.31
                                sh = np.minimum(np.maximum(sh, model.sl), model.su)
                            else:
                                sh = 0.123 * (model.su + model.sl)
                            model.shift_base(sh)
                        # probe steps: every value within +-4 ulp of each shifted bound, and 0 / mid-box
                        cand = []
                        for b in (model.sl, model.su):
                            for j in range(2):
                                v = b[j]
                                vals = [v]
                                up = dn = v
                                for _ in range(4):
                                    up = np.nextafter(up, np.inf); dn = np.nextafter(dn, -np.inf)
                                    vals += [up, dn]
                                for val in vals:
                                    s = 0.5 * (model.sl + model.su)
                                    s[j] = val
                                    cand.append(s)
                                    s2 = b.copy()
                                    s2[j] = val
                                    cand.append(s2)
                        cand.append(np.zeros(2))
                        for s in cand:
                            xabs = model.as_absolute_coordinates(s)
                            nbefore = len(recorded)
                            ctl.evaluate_objective(xabs, 1, params)
                            n_probe += 1
                            if len(recorded) != nbefore + 1:
                                raise common.HarnessError("component probe made no evaluation")
                            xu_ = recorded[-1]["x"]
                            if np.any(xu_ == xl) or np.any(xu_ == xu):
                                n_on += 1
                            if np.any(xu_ < xl) or np.any(xu_ > xu):
                                viol.append(("bounds_component",
                                             "bounds (%r,%r) scaling=%s x0=%s shifts=%s step=%s -> evaluated x=%s outside by %.3g" % (
                                                 lo, hi, scaling, x0.tolist(), list(hist), s.tolist(), xu_.tolist(),
                                                 float(max(np.max(xl - xu_), np.max(xu_ - xu)))),
                                             {"engine": "component", "lo": lo, "hi": hi, "scaling": scaling, "x0": x0.tolist(),
                                              "hist": list(hist), "step": s.tolist()}))
                            if len(samples) < 2:
                                samples.append({"bounds": [lo, hi], "scaling": scaling, "shifts": list(hist), "step": s.tolist(),
                                                "evaluated": xu_.tolist()})
    # report at most a handful per (scaling) class
    seen = {}
    for clause, detail, rep in viol:
        key = (rep["scaling"], len(rep["hist"]))
        seen[key] = seen.get(key, 0) + 1
        if seen[key] <= 2:
            report.add_violation(clause, detail, rep, {"scaling": rep["scaling"], "component": True})
    report.coverage["component_probes"] = n_probe
    report.coverage["component_probes_on_bound"] = n_on
    report.coverage["component_violations"] = len(viol)
    report.coverage["component_samples"] = samples
    if n_on < 100:
        raise common.HarnessError("component layer vacuous: only %d probes landed on a bound" % n_on)


def run(report, tier, seed):
    salts = common.salts_for(tier, seed)
    cps = _configs(tier, salts)
    res = solvex.explore(report, MOD, cps, classify=classify)
    solvex.site_floor(report, res["tags"], exempt=SITE_EXEMPT)
    _component_layer(report, tier, salts)
    tags = res["tags"]
    cov = report.coverage
    need = ["eval_on_bound", "result_on_bound", "scaled"] + ["mode:" + m for m in MODES]
    sites = [t for t in tags if t.startswith("eval_on_bound@")]
    missing = [t for t in need if not tags.get(t)]
    if missing or len(sites) < 4:
        raise common.HarnessError("C01 exploration is vacuous: missing %s, on-bound sites %s" % (missing, sites))
    cov["rule"] = ("one execution of dfols.solve per (per-coordinate bound pattern x x0 placement, scaling, mode, function, "
                   "salt) [+ single answer deviations in thorough]; non-trivial = distinct (mode, placement, scaling) "
                   "configurations in which at least one evaluated coordinate lay exactly on a bound; plus component "
                   "probes within +-4 ulp of every shifted bound")
    cov["distinct_nontrivial"] = int(tags.get("eval_on_bound", 0))
    cov["salts"] = salts
    report.assumptions += ["n<=2 (quick) / n<=3 (thorough); maxfun<=70; bound values from a fixed bank of non-representable endpoints"]


def replay(rep):
    if rep.get("engine") == "component":
        print("component replay:", rep)
        return 0
    ex = solvex.replay(rep)
    return 1 if ex.viol else 0
