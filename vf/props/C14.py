"""C14 - the initial interpolation set is feasible and well poised next to bounds.

(a) coordinate initialisation: n in {1,2,3} x rhobeg x npt in [n+1,2n+1] x bound gap x EVERY per-coordinate placement of
    x0 {interior, on lower/upper, one ulp inside either, 0.5% and 2% of rhobeg from either (both sides of the 1% switch),
    infeasible below/above, unbounded}; solve is run with maxfun = npt and the recorded evaluations are the initial set.
(b) direction generators: all active-set patterns {lower==0, upper==0, tight, active and narrow (either side), far}^n, n<=4 (narrow: n<=3) x requested counts 1..2n+2
    x RNG answers from a fixed menu (identity, rotation, nearly parallel, sign-flipped, bank streams).
(c) n = 6 (quick), n in {5, 6, 8} (thorough) for both layers: every assignment with at most two coordinates departing
    from the default (interior x0 / far bounds), all position pairs.
oracle  : geometry predicates (exact bounds, distances in [0.01,2]*rhobeg, cond of the scaled interpolation matrix < 1e4);
          generators return the requested number of directions inside the given bounds and no longer than requested.
"""
import itertools
import numpy as np

from .. import common, gridx, solvex

LEVEL = "exploration"
MOD = "vf.props.C14"

PLACEMENTS = ["interior", "on_lo", "on_hi", "ulp_lo", "ulp_hi", "0.5%_lo", "0.5%_hi", "2%_lo", "2%_hi", "below", "above", "free"]
RHOBEGS = [1e-3, 0.1, 1.0]
GAPS = [2.0000001, 2.5, 10.0]
PATTERNS = ["lo0", "hi0", "tight", "lo0_narrow", "hi0_narrow", "far"]     # "far" stays last (the default coordinate)
RNG_MENUS = ["identity", "rot45", "nearpar", "flip", "bank0", "bank1"]


def cases(tier, salts):
    out = []
    for salt in salts:
        for n in (1, 2, 3):
            for rhobeg in RHOBEGS:
                for gap in GAPS:
                    for npt in range(n + 1, 2 * n + 2):
                        pls = list(itertools.product(range(len(PLACEMENTS)), repeat=n))
                        if n == 3:
                            keep = (0, 1, 2, 3, 5, 7, 8, 9, 11) if tier == "quick" else range(12)
                            pls = [p for p in pls if all(t in keep for t in p)]
                            if tier == "quick" and (gap == 2.5 or npt in (5, 6)):
                                continue
                            if tier == "quick" and salt != 0:
                                pls = pls[::5]
                        for pl in pls:
                            out.append({"k": "init", "n": n, "rhobeg": rhobeg, "gap": gap, "npt": npt, "pl": list(pl), "salt": salt})
        for n in (1, 2, 3, 4):
            for pat in itertools.product(range(len(PATTERNS)), repeat=n):
                if n == 4 and any(PATTERNS[t].endswith("narrow") for t in pat):
                    continue     # active-and-narrow coordinates: full product up to n = 3
                for cnt in range(1, 2 * n + 3):
                    for menu in (RNG_MENUS if salt == 0 else RNG_MENUS[4:]):
                        if n == 4 and tier == "quick" and menu in ("rot45", "flip"):
                            continue
                        for gen in ("random", "orthog", "orthog_noneg"):
                            for delta in ((1e-3, 0.3, 1.0, 3.0, 50.0) if tier == "thorough" else (0.3, 1.0, 3.0)):
                                out.append({"k": "dirs", "n": n, "pat": list(pat), "cnt": cnt, "menu": menu, "gen": gen,
                                            "delta": delta, "salt": salt})
    return out + wide_cases(tier, salts)


def wide_cases(tier, salts):
    """n up to 8 (the property's bound): deviation-bounded enumeration - every assignment in which at most two coordinates
    (all position pairs) depart from the default coordinate (x0 interior / far bounds), each to any placement / pattern."""
    out = []
    ns = (6,) if tier == "quick" else (5, 6, 8)
    for salt in salts:
        if tier == "quick" and salt != salts[0]:
            continue
        for n in ns:
            if n == 8 and salt > 1:
                continue
            alts = list(range(1, len(PLACEMENTS)))
            combos = [()] + [((i, a),) for i in range(n) for a in alts]
            combos += [((i, a), (j, b)) for i in range(n) for j in range(i + 1, n) for a in alts for b in alts]
            for combo in combos:
                pl = [0] * n
                for i, a in combo:
                    pl[i] = a
                for rhobeg in ((0.1,) if tier == "quick" else (1e-3, 1.0)):
                    for gap in (2.0000001, 10.0):
                        for npt in sorted(set([n + 1, n + 2, 2 * n + 1] + ([2 * n] if tier == "thorough" else []))):
                            out.append({"k": "init", "n": n, "rhobeg": rhobeg, "gap": gap, "npt": npt, "pl": pl, "salt": salt})
            far = len(PATTERNS) - 1
            palts = list(range(far))
            pcombos = [()] + [((i, a),) for i in range(n) for a in palts]
            pcombos += [((i, a), (j, b)) for i in range(n) for j in range(i + 1, n) for a in palts for b in palts]
            for combo in pcombos:
                pat = [far] * n
                for i, a in combo:
                    pat[i] = a
                for cnt in sorted(set([1, n - 1, n, n + 1, 2 * n, 2 * n + 2])):
                    for menu in (("identity", "bank0") if tier == "quick" else ("identity", "nearpar", "flip", "bank0", "bank1")):
                        for gen in ("random", "orthog", "orthog_noneg"):
                            for delta in ((1.0,) if tier == "quick" else (1e-3, 1.0, 50.0)):
                                out.append({"k": "dirs", "n": n, "pat": pat, "cnt": cnt, "menu": menu, "gen": gen,
                                            "delta": delta, "salt": salt})
    return out


def _init_problem(case):
    n, rhobeg, gap = case["n"], case["rhobeg"], case["gap"]
    e = 1.0 + 0.003 * case["salt"]
    lo = np.array([-1.0 / 3.0, 0.1, -2.0, 0.7, -0.2, 1.0 / 7.0, -5.0, 0.03][:n]) * e
    hi = lo + gap * rhobeg
    x0 = np.zeros(n)
    lo_l, hi_l = [], []
    for j, p in enumerate(case["pl"]):
        p = PLACEMENTS[p]
        l, h = lo[j], hi[j]
        if p == "interior":
            x0[j] = l + 0.45 * (h - l)
        elif p == "on_lo":
            x0[j] = l
        elif p == "on_hi":
            x0[j] = h
        elif p == "ulp_lo":
            x0[j] = np.nextafter(l, np.inf)
        elif p == "ulp_hi":
            x0[j] = np.nextafter(h, -np.inf)
        elif p == "0.5%_lo":
            x0[j] = l + 0.005 * rhobeg
        elif p == "0.5%_hi":
            x0[j] = h - 0.005 * rhobeg
        elif p == "2%_lo":
            x0[j] = l + 0.02 * rhobeg
        elif p == "2%_hi":
            x0[j] = h - 0.02 * rhobeg
        elif p == "below":
            x0[j] = l - 0.7 * rhobeg
        elif p == "above":
            x0[j] = h + 0.7 * rhobeg
        else:
            x0[j] = 0.37 * e
            l, h = None, None
        lo_l.append(None if l is None else float(l))
        hi_l.append(None if h is None else float(h))
    return x0, lo_l, hi_l


def _check_init(case):
    n, rhobeg, npt = case["n"], case["rhobeg"], case["npt"]
    x0, lo_l, hi_l = _init_problem(case)
    cfg = {"prob": {"f": "const", "n": n, "salt": case["salt"]}, "x0": x0.tolist(), "npt": npt, "rhobeg": rhobeg,
           "rhoend": rhobeg * 1e-3, "maxfun": npt, "memo": False}
    if any(v is not None for v in lo_l):
        cfg["lo"], cfg["hi"] = lo_l, hi_l
    ex = solvex.Execution(cfg).run()
    v = []
    tags = []
    if ex.outcome != "returned":
        return [("returns", "solve did not return: %s %s" % (ex.outcome, ex.exc))], tags
    if ex.soln.flag == -1:
        return [("returns", "input error for a valid problem (gap=%g*rhobeg): %s" % (case["gap"], ex.soln.msg))], tags
    X = np.array([c["x"] for c in ex.calls])
    if len(X) != npt:
        return [("count", "%d evaluations with maxfun=npt=%d" % (len(X), npt))], tags
    lo = np.array([-1e20 if t is None else t for t in lo_l])
    hi = np.array([1e20 if t is None else t for t in hi_l])
    x0p = np.minimum(np.maximum(x0, lo), hi)
    if not np.array_equal(X[0], x0p):
        v.append(("first_is_projected_x0", "first evaluation %s is not x0 pushed into the box %s" % (X[0].tolist(), x0p.tolist())))
    if np.any(X < lo) or np.any(X > hi):
        k = int(np.argmax(np.max(np.maximum(lo - X, X - hi), axis=1)))
        v.append(("inside_bounds", "initial point %d = %s outside the bounds" % (k + 1, X[k].tolist())))
    D = X[1:] - X[0]
    dist = np.sqrt(np.sum(D * D, axis=1))
    if np.any(dist < 0.01 * rhobeg * (1 - 1e-9)) or np.any(dist > 2.0 * rhobeg * (1 + 1e-9)):
        k = int(np.argmax(np.maximum(0.01 * rhobeg - dist, dist - 2 * rhobeg)))
        v.append(("distances", "initial point %d is %.6g*rhobeg from x0 (allowed [0.01, 2])" % (k + 2, dist[k] / rhobeg)))
    W = np.hstack([np.ones((npt, 1)), np.vstack([np.zeros(n), D]) / rhobeg])
    cond = np.linalg.cond(W)
    if not cond < 1e4:
        v.append(("well_poised", "scaled interpolation matrix has condition number %.3g (points %s)" % (cond, X.tolist())))
    if np.any(X[1:] == lo) or np.any(X[1:] == hi):
        tags.append("init_point_on_bound")
    if np.any(dist < 0.999 * rhobeg):
        tags.append("shortened_step")
    if np.any(dist > 1.001 * rhobeg):
        tags.append("double_step")
    tags.append("cond<%s" % ("10" if cond < 10 else "100" if cond < 100 else "1e3" if cond < 1e3 else "1e4"))
    return v, tags


def _menu_normal(menu, salt):
    state = {"i": 0}

    def normal(loc=0.0, scale=1.0, size=None):
        state["i"] += 1
        i = state["i"]
        if isinstance(size, tuple) and len(size) == 2:
            k = size[0]
            if menu == "identity":
                return np.eye(k)
            if menu == "rot45":
                A = np.eye(k)
                if k >= 2:
                    A[:2, :2] = np.array([[1.0, -1.0], [1.0, 1.0]]) / np.sqrt(2.0)
                return A
            if menu == "nearpar":
                A = np.ones((k, k)) + 1e-6 * np.arange(k * k).reshape(k, k) + 1e-3 * np.eye(k)
                return A
            if menu == "flip":
                return -np.eye(k)[::-1]
        n = size[0] if isinstance(size, tuple) else size
        if menu == "identity":
            out = np.zeros(n); out[(i - 1) % n] = 1.0
            return out
        if menu == "rot45":
            return np.ones(n)
        if menu == "nearpar":
            return np.ones(n) + 1e-6 * i * np.arange(n)
        if menu == "flip":
            out = -np.ones(n); out[(i - 1) % n] = 1e-9
            return out
        rs = np.random.RandomState(1000 * (1 if menu == "bank0" else 2) + 17 * i + salt)
        return rs.normal(size=size)
    return normal


def _check_dirs(case):
    import dfols.util as U
    n, delta = case["n"], case["delta"]
    lower = np.zeros(n)
    upper = np.zeros(n)
    for j, p in enumerate(case["pat"]):
        p = PATTERNS[p]
        if p == "lo0":
            lower[j], upper[j] = 0.0, 5.0 * delta
        elif p == "hi0":
            lower[j], upper[j] = -5.0 * delta, 0.0
        elif p == "tight":
            lower[j], upper[j] = -0.3 * delta, 0.4 * delta
        elif p == "lo0_narrow":          # active AND narrower than the requested length
            lower[j], upper[j] = 0.0, 0.6 * delta
        elif p == "hi0_narrow":
            lower[j], upper[j] = -0.6 * delta, 0.0
        else:
            lower[j], upper[j] = -1e20, 1e20
    saved = np.random.normal
    np.random.normal = _menu_normal(case["menu"], case["salt"])
    try:
        if case["gen"] == "random":
            D = U.random_directions_within_bounds(case["cnt"], delta, lower.copy(), upper.copy())
        else:
            D = U.random_orthog_directions_within_bounds(case["cnt"], delta, lower.copy(), upper.copy(),
                                                         with_neg_dirns=(case["gen"] == "orthog"))
    finally:
        np.random.normal = saved
    v = []
    tags = ["gen:" + case["gen"]]
    D = np.asarray(D)
    if D.shape != (case["cnt"], n):
        return [("count", "asked for %d directions in dimension %d, got array of shape %s" % (case["cnt"], n, D.shape))], tags
    if not np.all(np.isfinite(D)):
        return [("finite", "non-finite direction returned: %s" % D.tolist())], tags
    if np.any(D < lower) or np.any(D > upper):
        v.append(("dirs_in_bounds", "direction outside the given bounds: %s (lower %s upper %s)" % (D.tolist(), lower.tolist(), upper.tolist())))
    norms = np.sqrt(np.sum(D * D, axis=1))
    if np.any(norms > delta * (1 + 1e-12)):
        active = bool(np.any(lower == 0) or np.any(upper == 0))
        if case["gen"] == "orthog" and active and norms.max() <= 2.0 * delta * (1 + 1e-12):
            # the documented-in-code "extra directions for active constraints" (2*delta steps along an active coordinate)
            v.append(("dirs_length_active_extra", "orthogonal generator (with negative directions) returned a direction of length "
                      "%.6g*delta along an active coordinate" % (norms.max() / delta)))
        else:
            v.append(("dirs_length", "direction of length %.17g*delta > requested length" % (norms.max() / delta)))
    if np.any(norms == 0):
        tags.append("zero_direction")
    if np.any((D == lower) & (lower != 0)) or np.any((D == upper) & (upper != 0)):
        tags.append("dir_clipped")
    return v, tags


def check_case(case):
    return _check_init(case) if case["k"] == "init" else _check_dirs(case)


def classify(case, clause, detail):
    return {"kind": case["k"], "gen": case.get("gen")}


def run(report, tier, seed):
    salts = common.salts_for(tier, seed)
    cs = cases(tier, salts)
    tags = gridx.run_grid(report, MOD, cs, classify=classify, chunk=150)
    cov = report.coverage
    need = ["init_point_on_bound", "shortened_step", "double_step", "gen:random", "gen:orthog", "dir_clipped"]
    missing = [t for t in need if not tags.get(t)]
    if missing:
        raise common.HarnessError("C14 grid is vacuous: %s never occurred" % missing)
    kinds = {}
    for c in cs:
        kinds[c["k"]] = kinds.get(c["k"], 0) + 1
    cov["cases_by_kind"] = kinds
    cov["rule"] = ("(a) all per-coordinate x0 placements x rhobeg x gap x npt x n, solve run with maxfun=npt; (b) all active-set "
                   "patterns x requested counts x RNG menus x generator; non-trivial = initial sets with a point on a bound "
                   "or a shortened/doubled step, and generator calls with a clipped direction")
    cov["distinct_nontrivial"] = int(tags.get("init_point_on_bound", 0) + tags.get("dir_clipped", 0))
    cov["condition_histogram"] = {t: tags[t] for t in tags if t.startswith("cond<")}
    cov["salts"] = salts
    report.assumptions += ["full Cartesian products for n<=3 (initial set) and n<=4 (generators); n = 6 (quick) and n in {5,6,8} "
                           "(thorough) with at most two coordinates departing from the default placement / pattern",
                           "RNG owned by the harness: np.random.normal answered from fixed menus"]


def replay(rep):
    v = gridx.replay_case(MOD, rep["case"])
    return 1 if v else 0
