"""C16 - interpolation models reproduce their data and survive base shifts.

E2 explicit-state search over histories of {replace point k, append point (growing / regression), swap two points, shift base, re-fit}
on a real dfols.model.Model, with points from a dyadic alphabet (so that base shifts are exact in floating point and
only the linear algebra rounds), several base points (0, 1, 2^10, 2^20), n in {1,2,3}.  In every state the algebraic
identities of the property are evaluated on a copy (fit -> interpolation / normal equations / Lagrange identities), and
every shift transition is checked for invariance of model values at fixed absolute points and of (g, H).
"""
import copy
import numpy as np

from .. import common, modelx
from ..modelx import Disabled

LEVEL = "model_checking"
SYS = "vf.props.C16"
EPS = np.finfo(float).eps
BIG = 1e20
COND_MAX = 1e10

P2 = [(1.0, 0.0), (0.0, 1.0), (-0.5, 0.25), (2.0 ** -7, -2.0 ** -7), (2.0 ** -13, 2.0 ** -12), (0.75, 0.75)]
P1 = [(1.0,), (-0.5,), (2.0 ** -7,), (2.0 ** -13,), (0.75,)]
P3 = [(1.0, 0.0, 0.0), (0.0, 1.0, 0.0), (0.0, 0.0, 1.0), (-0.5, 0.25, 0.125), (2.0 ** -7, -2.0 ** -7, 2.0 ** -8),
      (0.5, 0.5, -0.5)]
PTS = {1: P1, 2: P2, 3: P3}


def _pts_wide(n):
    """n = 4..6: three mixed dyadic points first (the search alphabet), then the unit vectors and their halves (preludes)."""
    mixed = [tuple((-1.0) ** j * 2.0 ** -(1 + (j % 3)) for j in range(n)),
             tuple(2.0 ** -7 * (1 + (j % 2)) * (-1.0) ** (j // 2) for j in range(n)),
             tuple(0.75 if j % 2 == 0 else -0.5 for j in range(n))]
    units = [tuple(1.0 if j == i else 0.0 for j in range(n)) for i in range(n)]
    halves = [tuple(-0.5 if j == i else 0.0 for j in range(n)) for i in range(n)]
    return mixed + units + halves


for _n in (4, 5, 6):
    PTS[_n] = _pts_wide(_n)


def resid(x, m, base):
    """Smooth residuals of the absolute position (relative to the nominal base so that values stay O(1..1e3))."""
    z = x - base
    n = len(z)
    out = []
    for i in range(m):
        a = np.array([(1.0 + 0.5 * ((i + j) % 3)) * (-1) ** (i * j) for j in range(n)])
        out.append(0.5 * (i + 1) + a.dot(z) + 0.25 * (i + 1) * z[i % n] * z[(i + 1) % n])
    return np.array(out)


def init(params):
    from dfols.model import Model
    n, m, npt = params["n"], params["m"], params["npt"]
    base = float(params.get("base", 0.0))
    x0 = base * np.ones(n)
    r0 = resid(x0, m, base)
    model = Model(npt, x0, r0, -BIG * np.ones(n), BIG * np.ones(n), [], 1, do_logging=False,
                  precondition=params.get("precondition", True))
    st = {"m": model, "ev": 2, "base": base, "mdim": m, "shift_viol": []}
    for op in params.get("prelude", []):
        apply(st, op, params, check=False)
    return st


def clone(st):
    return copy.deepcopy(st)


def ops(st, params):
    m = st["m"]
    n = m.n()
    K = m.npt()
    P = PTS[n][:params.get("npts_alpha", len(PTS[n]))]
    out = []
    ks = list(range(K)) + ([K] if m.npt_so_far < m.num_pts else [])
    for k in ks:
        for pi in range(len(P)):
            out.append(["replace", k, pi])
    if m.npt_so_far >= m.num_pts and m.num_pts < params.get("max_pts", 2 * n + 1):
        for pi in range(len(P)):
            out.append(["append", pi])
    out.append(["shift", "xopt"])
    out.append(["shift", "dyadic"])
    out.append(["fit"])
    if params.get("swaps", True):
        for k1 in range(K):
            for k2 in range(k1 + 1, K):
                out.append(["swap", k1, k2])
    return out


def _tol(model, scale):
    W, _, _ = model.interpolation_matrix()
    c = np.linalg.cond(W)
    return c, 1e3 * EPS * c * scale


def _probe_points(st):
    m = st["m"]
    n = m.n()
    base = st["base"]
    return [base + np.array(PTS[n][0]) * 0.5, base + np.array(PTS[n][-1]) * 0.25, base - 0.125 * np.ones(n)]


def apply(st, op, params, check=True):
    m = st["m"]
    st["shift_viol"] = []
    kind = op[0]
    try:
        if kind == "replace":
            _, k, pi = op
            x = np.array(PTS[m.n()][pi])
            # coincident points make the system singular by construction: not an input the solver produces
            for j in range(m.npt()):
                if j != k and np.array_equal(m.points[j, :], x):
                    raise Disabled("coincident point")
            m.change_point(k, x, resid(m.xbase + x, st["mdim"], st["base"]), st["ev"])
            st["ev"] += 1
            if m.factorisation_current:
                st["shift_viol"].append(("cache_invalidated", "factorisation_current still True after change_point"))
        elif kind == "append":
            x = np.array(PTS[m.n()][op[1]])
            for j in range(m.npt()):
                if np.array_equal(m.points[j, :], x):
                    raise Disabled("coincident point")
            m.add_new_point(x, resid(m.xbase + x, st["mdim"], st["base"]), st["ev"])
            st["ev"] += 1
            if m.factorisation_current:
                st["shift_viol"].append(("cache_invalidated", "factorisation_current still True after add_new_point"))
        elif kind == "shift":
            sh = m.xopt().copy() if op[1] == "xopt" else np.array([0.5, -0.25, 0.125, 0.25, -0.5, 0.0625][:m.n()])
            probes = _probe_points(st)
            before_vals = [m.model_value(z - m.xbase, d_based_at_xopt=False, with_const_term=True) for z in probes]
            g0, H0 = m.build_full_model()
            ref = copy.deepcopy(m)
            m.shift_base(sh)
            if m.factorisation_current:
                st["shift_viol"].append(("cache_invalidated", "factorisation_current still True after shift_base"))
            if check:
                scale = max(1.0, float(np.max(np.abs(m.fval_v[:m.npt()]))), float(np.max(np.abs(m.model_jac))) if m.model_jac.size else 1.0)
                jsc = max(1.0, float(np.max(np.abs(m.model_jac)))) * max(1.0, float(np.max(np.abs(m.points[:m.npt()]))) + float(np.max(np.abs(sh))))
                t = 1e3 * EPS * max(scale, jsc, float(np.max(np.abs(m.model_const))))
                after_vals = [m.model_value(z - m.xbase, d_based_at_xopt=False, with_const_term=True) for z in probes]
                for z, a, b in zip(probes, before_vals, after_vals):
                    if np.max(np.abs(a - b)) > t:
                        st["shift_viol"].append(("shift_values", "model value at absolute point %s changed by %.3g under a base shift (tol %.3g)" % (
                            z.tolist(), float(np.max(np.abs(a - b))), t)))
                        break
                g1, H1 = m.build_full_model()
                gs = max(1.0, float(np.max(np.abs(g0))))
                if np.max(np.abs(g1 - g0)) > 1e3 * EPS * gs * max(1.0, jsc) or np.max(np.abs(H1 - H0)) > 1e3 * EPS * max(1.0, float(np.max(np.abs(H0)))):
                    st["shift_viol"].append(("shift_gH", "assembled gradient/Hessian changed under a base shift: |dg|=%.3g |dH|=%.3g" % (
                        float(np.max(np.abs(g1 - g0))), float(np.max(np.abs(H1 - H0))))))
                # shift + re-fit versus re-fit without shift
                a = copy.deepcopy(ref)
                b = copy.deepcopy(m)
                oka = okb = False
                if m.npt() >= 2:
                    oka = a.interpolate_mini_models_svd()[0]
                    okb = b.interpolate_mini_models_svd()[0]
                if oka and okb:
                    c, tt = _tol(b, max(1.0, float(np.max(np.abs(b.fval_v[:b.npt()])))))
                    if c < COND_MAX:
                        for z in probes:
                            va = a.model_value(z - a.xbase, d_based_at_xopt=False, with_const_term=True)
                            vb = b.model_value(z - b.xbase, d_based_at_xopt=False, with_const_term=True)
                            zs = max(1.0, float(np.max(np.abs(z - b.xbase - b.xopt()))) / max(1e-300, float(np.sqrt(np.max(b.distances_to_xopt())))))
                            if np.max(np.abs(va - vb)) > tt * zs * 10:
                                st["shift_viol"].append(("shift_refit", "re-fitted model differs at %s by %.3g after a base shift (tol %.3g, cond %.3g)" % (
                                    z.tolist(), float(np.max(np.abs(va - vb))), tt * zs * 10, c)))
                                break
        elif kind == "swap":
            m.swap_points(op[1], op[2])
            if m.factorisation_current:
                st["shift_viol"].append(("cache_invalidated", "factorisation_current still True after swap_points"))
        elif kind == "fit":
            if m.npt() < 2:
                raise Disabled("a single point cannot be fitted")
            ok = m.interpolate_mini_models_svd(make_full_rank=False)[0]
            if not ok:
                raise Disabled("fit failed (singular geometry)")
        else:
            raise ValueError(op)
    except AssertionError as e:
        raise Disabled(str(e))
    except Disabled:
        raise
    except Exception as e:  # noqa: BLE001 - a Model operation that raises on valid data is an observation, not a harness failure
        return [("op_raises", "%s raised %s: %s" % (op, type(e).__name__, e))]
    return check_state(st, params) if check else []


def check_state(st, params):
    v = list(st.get("shift_viol", []))
    m = copy.deepcopy(st["m"])
    n, K = m.n(), m.npt()
    if K < 2:
        return v
    try:
        ok = m.interpolate_mini_models_svd(make_full_rank=False)[0]
    except Exception as e:  # noqa: BLE001
        return v + [("fit_raises", "interpolate_mini_models_svd raised %s: %s" % (type(e).__name__, e))]
    if not ok:
        return v
    scale = max(1.0, float(np.max(np.abs(m.fval_v[:K]))))
    c, t = _tol(m, scale)
    if not np.isfinite(c) or c > COND_MAX:
        st["illcond"] = True
        return v
    E = np.array([m.fval_v[k, :] - m.model_value(m.xpt(k), d_based_at_xopt=False, with_const_term=True) for k in range(K)])
    Y = np.array([m.xpt(k) - m.xopt() for k in range(K)])
    dmax = max(1e-300, float(np.sqrt(np.max(np.sum(Y * Y, axis=1)))))
    if K <= n + 1:
        if np.max(np.abs(E)) > t:
            v.append(("interpolation", "model misses its data by %.3g at %d points (tol %.3g, cond %.3g)" % (
                float(np.max(np.abs(E))), K, t, c)))
    else:
        r0 = np.abs(E.sum(axis=0)).max()
        r1 = np.abs((Y / dmax).T.dot(E)).max()
        if max(r0, r1) > t * K:
            v.append(("normal_equations", "regression residual not orthogonal to the design columns: %.3g, %.3g (tol %.3g)" % (r0, r1, t * K)))
    if K < n + 1:
        # growing phase with the optional full-rank completion (the solver's setting while growing): fitted twice in a row, so
        # that the second fit starts from a non-zero Jacobian; the data must still be interpolated
        m2 = copy.deepcopy(st["m"])
        try:
            ok2 = m2.interpolate_mini_models_svd(make_full_rank=True)[0] and m2.interpolate_mini_models_svd(make_full_rank=True)[0]
        except Exception as e:  # noqa: BLE001
            return v + [("fit_raises", "interpolate_mini_models_svd(make_full_rank=True) raised %s: %s" % (type(e).__name__, e))]
        if ok2:
            jsc = max(1.0, float(np.max(np.abs(m2.model_jac)))) * max(1.0, float(np.max(np.abs(m2.points[:K]))))
            t2 = 1e3 * EPS * c * max(scale, jsc)
            E2 = np.array([m2.fval_v[k, :] - m2.model_value(m2.xpt(k), d_based_at_xopt=False, with_const_term=True) for k in range(K)])
            if np.max(np.abs(E2)) > t2:
                v.append(("growing_interpolation_fullrank", "after the full-rank completion the model misses its data by %.3g at %d "
                          "points (tol %.3g, cond %.3g)" % (float(np.max(np.abs(E2))), K, t2, c)))
    try:
        cs, gs = m.lagrange_gradient(k=None)
    except Exception as e:  # noqa: BLE001
        return v + [("lagrange_raises", "%s: %s" % (type(e).__name__, e))]
    L = cs[None, :] + Y.dot(gs)     # L[j, k] = L_k(y_j)
    tl = 1e3 * EPS * c
    if K <= n + 1:
        if np.max(np.abs(L - np.eye(K))) > tl:
            v.append(("lagrange_delta", "L_k(y_j) differs from delta_kj by %.3g (tol %.3g)" % (float(np.max(np.abs(L - np.eye(K)))), tl)))
    else:
        if abs(cs.sum() - 1.0) > tl or np.max(np.abs(gs.sum(axis=1))) * dmax > tl:
            v.append(("lagrange_sum", "Lagrange functions do not sum to one: sum c=%.17g, |sum g|*d=%.3g (tol %.3g)" % (
                cs.sum(), float(np.max(np.abs(gs.sum(axis=1))) * dmax), tl)))
    return v


def check(st, params):
    return check_state(st, params)


def key(st):
    m = st["m"]
    K = m.npt()
    return b"|".join([np.array([m.num_pts, m.npt_so_far, m.kopt, int(m.factorisation_current)]).tobytes(),
                      m.points[:K].tobytes(), m.fval_v[:K].tobytes(), m.xbase.tobytes(), m.model_jac.tobytes(),
                      m.model_const.tobytes(), m.eval_num[:K].tobytes()])


def describe(st):
    m = st["m"]
    return "npt=%d/%d kopt=%d xbase=%s fact_current=%s points=%s" % (m.npt(), m.num_pts, m.kopt, m.xbase.tolist(),
                                                                    m.factorisation_current, m.points[:m.npt()].tolist())


def _searches(tier):
    runs = []
    if tier == "quick":
        runs.append(({"n": 2, "m": 2, "npt": 3, "base": 0.0, "max_pts": 5, "npts_alpha": 5}, 4))      # from x0 alone (growing)
        runs.append(({"n": 2, "m": 2, "npt": 3, "base": 2.0 ** 20, "max_pts": 5, "npts_alpha": 5,      # from a fitted full set
                      "prelude": [["replace", 1, 0], ["replace", 2, 1], ["fit"]]}, 4))
        runs.append(({"n": 2, "m": 3, "npt": 5, "base": 1.0, "max_pts": 5, "npts_alpha": 4,
                      "prelude": [["replace", 1, 0], ["replace", 2, 1], ["replace", 3, 2], ["replace", 4, 5]]}, 3))
        runs.append(({"n": 1, "m": 1, "npt": 2, "base": 2.0 ** 10, "max_pts": 3}, 5))
        runs.append(({"n": 3, "m": 2, "npt": 4, "base": 0.0, "max_pts": 5, "npts_alpha": 4}, 4))
        # the documented option interpolation.precondition=False (wave k: the system left unscaled but the solution still
        # divided by the point-set radius): growing from x0 alone and from a fitted set
        runs.append(({"n": 2, "m": 2, "npt": 3, "base": 1.0, "max_pts": 4, "npts_alpha": 3, "precondition": False}, 3))
        runs.append(({"n": 2, "m": 2, "npt": 3, "base": 2.0 ** 10, "max_pts": 4, "npts_alpha": 3, "precondition": False,
                      "prelude": [["replace", 1, 0], ["replace", 2, 1], ["fit"]]}, 3))
        # the property's largest dimensions: a fitted full set in n = 6, m = 6 (interpolation, then regression by appending)
        runs.append(({"n": 6, "m": 6, "npt": 7, "base": 2.0 ** 10, "max_pts": 9, "npts_alpha": 3,
                      "prelude": [["replace", k, 2 + k] for k in range(1, 7)] + [["fit"]]}, 2))
    else:
        runs.append(({"n": 6, "m": 6, "npt": 7, "base": 2.0 ** 10, "max_pts": 9, "npts_alpha": 3,
                      "prelude": [["replace", k, 2 + k] for k in range(1, 7)] + [["fit"]]}, 3))
        runs.append(({"n": 5, "m": 3, "npt": 6, "base": 0.0, "max_pts": 8, "npts_alpha": 3}, 3))          # growing from x0 alone
        runs.append(({"n": 4, "m": 5, "npt": 9, "base": 2.0 ** 20, "max_pts": 9, "npts_alpha": 3,         # full regression set
                      "prelude": [["replace", k, 2 + k] for k in range(1, 9)] + [["fit"]]}, 3))
        for base in (0.0, 1.0, 2.0 ** 10, 2.0 ** 20):
            runs.append(({"n": 2, "m": 2, "npt": 3, "base": base, "max_pts": 5}, 4))
            runs.append(({"n": 2, "m": 2, "npt": 3, "base": base, "max_pts": 5,
                          "prelude": [["replace", 1, 0], ["replace", 2, 1], ["fit"]]}, 4))
        runs.append(({"n": 2, "m": 3, "npt": 5, "base": 1.0, "max_pts": 5,
                      "prelude": [["replace", 1, 0], ["replace", 2, 1], ["replace", 3, 2], ["replace", 4, 5]]}, 4))
        runs.append(({"n": 2, "m": 2, "npt": 3, "base": 2.0 ** 20, "max_pts": 5, "precondition": False}, 4))
        runs.append(({"n": 1, "m": 1, "npt": 2, "base": 2.0 ** 10, "max_pts": 3}, 6))
        runs.append(({"n": 3, "m": 3, "npt": 4, "base": 2.0 ** 10, "max_pts": 7, "npts_alpha": 5}, 4))
        runs.append(({"n": 3, "m": 2, "npt": 7, "base": 0.0, "max_pts": 7, "npts_alpha": 4,
                      "prelude": [["replace", 1, 0], ["replace", 2, 1], ["replace", 3, 2], ["replace", 4, 3], ["replace", 5, 4],
                                  ["replace", 6, 5]]}, 3))
    return runs


def run(report, tier, seed):
    cov = report.coverage
    total_states = total_trans = 0
    samples = []
    searches = {}
    capped = False
    for params, depth in _searches(tier):
        res = modelx.bfs(SYS, params, depth)
        total_states += res["states"]
        total_trans += res["transitions"]
        capped = capped or res["capped"]
        searches[common.sha(params)[:8]] = {"params": params, "depth": depth, "states_per_level": res["per_level"],
                                            "transitions": res["transitions"], "disabled_ops": res["disabled"]}
        for h in res["samples"]:
            if len(samples) < 3:
                samples.append({"params": params, "history": h})
        seen = set()
        for clause, detail, hist in sorted(res["violations"], key=lambda t: len(t[2])):
            k = (clause, hist[-1][0] if hist else "init")
            if k in seen:
                continue
            seen.add(k)
            report.add_violation(clause, detail, {"engine": "modelx", "sys": SYS, "params": params, "history": hist},
                                 {"op": hist[-1][0] if hist else "init"})
    cov["states"] = total_states
    cov["transitions"] = total_trans
    cov["traces_validated_against_impl"] = total_trans
    cov["samples"] = samples
    cov["searches"] = searches
    cov["exhaustive"] = not capped
    cov["evaluations"] = total_trans
    cov["distinct_nontrivial"] = total_states
    cov["rule"] = ("breadth-first search over histories of {replace, append, shift base, re-fit} on the real Model; states "
                   "de-duplicated on the bytes of points, residuals, base point, fitted model and cache flag; in every state "
                   "the fit identities are evaluated on a copy with tolerance 1e3*eps*cond(W)*scale")
    report.assumptions += ["n<=3, m<=3 with the full alphabets, plus n=6/m=6 (quick) and n in {4,5,6}, m<=6 (thorough) on three-point alphabets; point counts 2..2n+1, dyadic point alphabet over four decades, base points up to 2^20; "
                           "states with cond(W) > 1e10 are counted but their identities are not asserted"]
    if total_states < 500:
        raise common.HarnessError("C16 search is vacuous: %d states" % total_states)


def replay(rep):
    v = modelx.replay_history(rep["sys"], rep["params"], rep["history"])
    return 1 if v else 0
