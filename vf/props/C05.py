"""C05 - linear least-squares problems are solved to global optimality.

alphabet: shape (m,n) x conditioning {1,30,1e3} x data bank x ALL per-coordinate box patterns relative to the
          unconstrained minimiser {none, inactive, active lower, active upper, bound exactly at the minimiser}^n x
          x0 {interior, corner, infeasible} x scaling on/off x npt {n+1, n+2, 2n+1}
bound   : n<=3 complete patterns (n=4: reduced pattern set); default budget / radii as the statement says
oracle  : f* by enumeration of all active sets (exact), cross-checked against scipy.optimize.lsq_linear (disagreement of
          the two oracles is a harness error); m<n shapes use lsq_linear alone.
"""
import itertools
import numpy as np

from .. import common, gridx, solvex, oracles, monitors as mon

LEVEL = "exploration"
MOD = "vf.props.C05"

SHAPES = [(1, 1), (2, 1), (2, 2), (3, 2), (5, 2), (3, 3), (4, 3), (6, 4), (1, 2), (2, 3)]
PATTERNS = ["none", "inactive", "act_lo", "act_hi", "at_min"]
X0S = ["interior", "corner", "infeasible", "upper_some", "upper_corner"]


def cases(tier, salts):
    out = []
    for salt in salts:
        for (m, n) in SHAPES:
            conds = [1.0, 30.0, 1e3] if (tier == "thorough" or n <= 2) else [1.0, 1e3]
            if min(m, n) == 1:
                conds = [1.0]
            idxs = [0, 1] if tier == "thorough" else [0]
            if n <= 3:
                pats = list(itertools.product(range(5), repeat=n))
            else:
                pats = [p for p in itertools.product(range(5), repeat=n) if len(set(p)) == 1] + \
                       [p for p in itertools.product((1, 2, 3), repeat=n)][:: (3 if tier == "quick" else 1)]
            if tier == "quick" and salt != 0:
                pats = pats[::4]
            if tier == "thorough" and salt >= 2 and n >= 3:
                pats = pats[::4]          # the full pattern products for n >= 3 on two salts, every fourth pattern on the others
            npts = sorted(set([n + 1, n + 2, 2 * n + 1])) if (tier == "thorough" or n <= 2) else [n + 1, 2 * n + 1]
            for cond in conds:
                for idx in idxs:
                    for pat in pats:
                        for x0k in X0S:
                            if tier == "quick" and n >= 3 and x0k in ("corner", "upper_corner") and cond != 1.0:
                                continue
                            if x0k in ("upper_some", "upper_corner") and all(PATTERNS[p] == "none" for p in pat):
                                continue
                            for sc in (False, True):
                                if sc and any(PATTERNS[p] == "none" for p in pat):
                                    continue
                                for npt in npts:
                                    out.append({"m": m, "n": n, "cond": cond, "idx": idx, "pat": list(pat), "x0": x0k,
                                                "scaling": sc, "npt": npt, "salt": salt})
                                    # boxes whose sides differ by orders of magnitude (what internal scaling is for): the
                                    # narrow sides are far below 2*rhobeg in user units, which is legal only with scaling
                                    if sc and n >= 2 and cond == conds[0] and npt == npts[0]:
                                        out.append({"m": m, "n": n, "cond": cond, "idx": idx, "pat": list(pat), "x0": x0k,
                                                    "scaling": True, "npt": npt, "salt": salt, "wmag": 1})
    return out


def build(case):
    m, n = case["m"], case["n"]
    A, b = oracles.lin_bank(m, n, case["cond"], case["idx"], case["salt"])
    xhat = np.linalg.lstsq(A, b, rcond=None)[0]
    lo = np.full(n, -1e20)
    hi = np.full(n, 1e20)
    mag = [0.04, 1.0, 25.0, 0.3][:n] if case.get("wmag") else [1.0] * n
    if case.get("wmag"):
        # rescale the columns so that the problem is as well conditioned in the scaled variables as the plain case
        A = A / np.array(mag)
        xhat = np.linalg.lstsq(A, b, rcond=None)[0]
    for j, p in enumerate(case["pat"]):
        p = PATTERNS[p]
        w = mag[j]
        if p == "inactive":
            lo[j], hi[j] = xhat[j] - 1.0 * w, xhat[j] + 1.5 * w
        elif p == "act_lo":
            lo[j], hi[j] = xhat[j] + 0.3 * w, xhat[j] + 2.0 * w
        elif p == "act_hi":
            lo[j], hi[j] = xhat[j] - 2.0 * w, xhat[j] - 0.3 * w
        elif p == "at_min":
            lo[j], hi[j] = xhat[j], xhat[j] + 1.7 * w
    x0 = np.zeros(n)
    for j in range(n):
        fin = lo[j] > -1e19
        if case["x0"] == "interior":
            x0[j] = 0.5 * (lo[j] + hi[j]) if fin else xhat[j] + 0.4
        elif case["x0"] == "corner":
            x0[j] = lo[j] if fin else xhat[j] - 0.5
        elif case["x0"] == "upper_some":      # on the upper bound in every second coordinate (starting with the last), interior elsewhere
            on = ((n - 1 - j) % 2 == 0)
            x0[j] = (hi[j] if on else 0.5 * (lo[j] + hi[j])) if fin else xhat[j] + 0.4
        elif case["x0"] == "upper_corner":
            x0[j] = hi[j] if fin else xhat[j] + 0.5
        else:
            x0[j] = lo[j] - 0.5 * mag[j] if fin else xhat[j] + 0.7
    return A, b, lo, hi, x0


def check_case(case):
    A, b, lo, hi, x0 = build(case)
    m, n = case["m"], case["n"]
    bounded = bool(np.any(lo > -1e19))
    cfg = {"prob": {"f": "lin", "A": A.tolist(), "b": b.tolist(), "salt": 0}, "x0": x0.tolist(), "npt": case["npt"],
           "memo": True}
    if bounded:
        cfg["lo"] = [None if v < -1e19 else float(v) for v in lo]
        cfg["hi"] = [None if v > 1e19 else float(v) for v in hi]
        if case["scaling"]:
            cfg["scaling"] = True
    ex = solvex.Execution(cfg, monitors=[mon.BoundsMonitor()]).run()
    v = []
    tags = []
    if ex.outcome != "returned":
        return [("returns", "solve did not return: %s %s" % (ex.outcome, ex.exc))], tags
    s = ex.soln
    if s.flag == mon.INPUT_ERROR:
        return [("returns", "input error for a valid problem: %s" % s.msg)], tags
    # oracle
    f_sc, x_sc = oracles.bounded_lsq_scipy(A, b, lo, hi)
    if m >= n:
        f_en, x_en = oracles.bounded_lsq_enum(A, b, lo, hi)
        if abs(f_en - f_sc) > 1e-8 * (1 + f_en):
            raise common.HarnessError("oracles disagree on case %r: enumeration %r vs lsq_linear %r" % (case, f_en, f_sc))
        fstar = min(f_en, f_sc)
    else:
        fstar = f_sc
    for c, d in ex.viol:
        v.append(("feasible", d))
    x = np.asarray(s.x)
    if np.any(x < lo) or np.any(x > hi):
        v.append(("feasible", "returned x=%s outside the bounds" % x.tolist()))
    if s.flag != mon.SUCCESS:
        v.append(("success", "flag %s (%s) after %d evaluations" % (s.flag, s.msg, s.nf)))
    gap = s.obj - fstar
    if not gap <= 1e-6 * (1 + fstar):
        v.append(("optimal", "obj=%.12g but the constrained minimum is %.12g (gap %.3g > 1e-6(1+f*)) [%s, nf=%d]" % (
            s.obj, fstar, gap, s.msg, s.nf)))
    if gap < -1e-9 * (1 + fstar):
        raise common.HarnessError("oracle is not optimal on case %r: solver found %r < %r" % (case, s.obj, fstar))
    xstar = x_sc
    nact = int(np.sum((np.abs(xstar - lo) < 1e-9) | (np.abs(xstar - hi) < 1e-9)))
    tags.append("active=%d" % nact)
    if nact:
        tags.append("active_at_optimum")
    tags.append("msg:" + str(s.msg).split(":")[-1].strip()[:30])
    if case.get("wmag"):
        tags.append("sides_of_different_magnitude")
    return v, tags


def classify(case, clause, detail):
    return {"scaling": case["scaling"], "n": case["n"], "m_lt_n": case["m"] < case["n"]}


def run(report, tier, seed):
    salts = common.salts_for(tier, seed)
    cs = cases(tier, salts)
    tags = gridx.run_grid(report, MOD, cs, classify=classify, chunk=40)
    cov = report.coverage
    if not tags.get("active_at_optimum") or not tags.get("active=2"):
        raise common.HarnessError("C05 grid is vacuous: no case with active bounds at the optimum")
    cov["rule"] = ("Cartesian product of shapes x conditioning x all 5^n box patterns x x0 placements x scaling x npt; "
                   "non-trivial = cases with at least one bound active at the constrained optimum")
    cov["distinct_nontrivial"] = int(tags.get("active_at_optimum", 0))
    cov["salts"] = salts
    report.assumptions += ["data from a fixed bank (prescribed singular values, fixed orthogonal factors): the continuous "
                           "quantifier 'for all (A,b)' is covered only over this bank; n<=4, m<=6"]


def replay(rep):
    v = gridx.replay_case(MOD, rep["case"])
    return 1 if v else 0
