"""C20 - results survive a JSON round trip and always print.

alphabet: every result object produced by an E1 exploration (modes x budgets x single answer deviations incl. NaN/inf, so
          that all exit flags other than input error are reached), diagnostics on/off (+ save_xk / save_rk), problem sizes
          beyond the printing thresholds (m >= 100, size(J) >= 200, npt >= 100), plus synthetic result objects enumerating
          {None, NaN, array} per optional field for every exit flag.
oracle  : field-by-field comparison after json.dumps(..., allow_nan=False) / json.loads / from_dict; str() of both.
"""
import json
import itertools
import numpy as np

from .. import common, solvex, cfgs, monitors as mon

LEVEL = "exploration"
MOD = "C20"
SITE_EXEMPT = {}     # evaluation sites this check cannot reach (site -> reason); see solvex.site_floor


def _arr_equal(a, b, what):
    if a is None or b is None:
        return None if (a is None and b is None) else "%s: %r became %r" % (what, a, b)
    a = np.asarray(a)
    b = np.asarray(b)
    if a.shape != b.shape:
        return "%s: shape %s became %s" % (what, a.shape, b.shape)
    if a.dtype.kind != b.dtype.kind:
        return "%s: dtype kind %s became %s" % (what, a.dtype.kind, b.dtype.kind)
    if a.dtype.kind == "f":
        if not np.array_equal(a, b, equal_nan=True):
            return "%s: values changed (%s -> %s)" % (what, a.ravel()[:4].tolist(), b.ravel()[:4].tolist())
    elif not np.array_equal(a, b):
        return "%s: values changed" % what
    return None


def _cell_equal(a, b):
    # "with None mapped back to NaN": a NaN cell must come back as NaN, not as None (and None only as None)
    an = isinstance(a, float) and a != a
    bn = isinstance(b, float) and b != b
    if an or bn:
        return an and bn
    if a is None or b is None:
        return a is None and b is None
    if isinstance(a, (np.ndarray, list)) or isinstance(b, (np.ndarray, list)):
        return np.array_equal(np.asarray(a, dtype=float), np.asarray(b, dtype=float), equal_nan=True)
    return a == b


def _has_inf(o):
    if isinstance(o, dict):
        return any(_has_inf(t) for t in o.values())
    if isinstance(o, (list, tuple)):
        return any(_has_inf(t) for t in o)
    return isinstance(o, float) and o in (float("inf"), float("-inf"))


def roundtrip_violations(soln, OptimResults):
    v = []
    try:
        s1 = str(soln)
    except Exception as e:  # noqa: BLE001
        return [("str_original", "str(result) raised %s: %s" % (type(e).__name__, e))]
    try:
        d = soln.to_dict(replace_nan=True)
    except Exception as e:  # noqa: BLE001
        return [("to_dict", "to_dict() raised %s: %s" % (type(e).__name__, e))]
    # +-inf cannot be represented in strict JSON and cannot be replaced without breaking exact reproduction, so results
    # that contain an infinity are outside the strict-JSON clause (they must still serialise with Python's json)
    has_inf = _has_inf(d)
    try:
        txt = json.dumps(d, allow_nan=has_inf)
    except Exception as e:  # noqa: BLE001
        return [("strict_json", "to_dict(replace_nan=True) is not %sJSON: %s: %s" % ("" if has_inf else "strict ", type(e).__name__, str(e)[:120]))]
    try:
        json.dumps(soln.to_dict(replace_nan=False))
    except Exception as e:  # noqa: BLE001
        v.append(("plain_json", "to_dict(replace_nan=False) is not JSON-serialisable: %s: %s" % (type(e).__name__, str(e)[:120])))
    try:
        r = OptimResults.from_dict(json.loads(txt))
    except Exception as e:  # noqa: BLE001
        return v + [("from_dict", "from_dict raised %s: %s" % (type(e).__name__, e))]
    for name in ("x", "resid", "jacobian", "jacmin_eval_nums"):
        msg = _arr_equal(getattr(soln, name), getattr(r, name), name)
        if msg:
            v.append(("field_" + name, msg))
    for name in ("nf", "nx", "nruns", "flag", "msg", "xmin_eval_num"):
        a, b = getattr(soln, name), getattr(r, name)
        if not (a == b and type(b) in (int, str) or (a == b and isinstance(b, (int, np.integer, str)))):
            v.append(("field_" + name, "%s: %r became %r" % (name, a, b)))
    a, b = soln.obj, r.obj
    if b is None or not isinstance(b, float) or not ((a != a and b != b) or a == b):
        v.append(("field_obj", "obj: %r became %r" % (a, b)))
    da, db = soln.diagnostic_info, r.diagnostic_info
    if (da is None) != (db is None):
        v.append(("table", "diagnostic table %s became %s" % ("present" if da is not None else "None", "present" if db is not None else "None")))
    elif da is not None:
        if list(da.columns) != list(db.columns):
            v.append(("table_columns", "columns changed: %s -> %s" % (list(da.columns), list(db.columns))))
        elif len(da) != len(db):
            v.append(("table_rows", "%d rows became %d" % (len(da), len(db))))
        else:
            if list(da.index) != list(db.index) or any(type(t) is str for t in db.index):
                v.append(("table_row_labels", "row labels %r... became %r..." % (list(da.index)[:3], list(db.index)[:3])))
            for c in da.columns:
                if da[c].dtype.kind != db[c].dtype.kind:
                    # a float column that is NaN in every row comes back as a column of None (own clause: known finding)
                    allnan = da[c].dtype.kind == "f" and bool(da[c].isna().all()) and db[c].dtype == object and all(t is None for t in db[c].tolist())
                    v.append(("table_dtypes_all_nan_column" if allnan else "table_dtypes",
                              "column %s: dtype %s became %s%s" % (c, da[c].dtype, db[c].dtype, " (every cell NaN -> None)" if allnan else "")))
                    break
                ca, cb = da[c].tolist(), db[c].tolist()
                bad = [i for i in range(len(ca)) if not _cell_equal(ca[i], cb[i])]
                if bad:
                    v.append(("table_cells", "column %s row %d: %r became %r" % (c, bad[0], ca[bad[0]], cb[bad[0]])))
                    break
    try:
        s2 = str(r)
        if s1 != s2:
            i = next((k for k in range(min(len(s1), len(s2))) if s1[k] != s2[k]), min(len(s1), len(s2)))
            v.append(("str_identical", "str() differs after the round trip near %r vs %r" % (s1[max(0, i - 30):i + 30], s2[max(0, i - 30):i + 30])))
    except Exception as e:  # noqa: BLE001
        v.append(("str_reloaded", "str(reloaded result) raised %s: %s" % (type(e).__name__, e)))
    return v


class RoundTripMonitor(solvex.Monitor):
    def on_end(self, ex):
        if ex.outcome != "returned":
            if ex.outcome == "raised" and not mon.raise_is_allowed(ex):
                ex.violate("returns", "solve raised %s: %s" % (type(ex.exc).__name__, ex.exc))
            return
        s = ex.soln
        if s.flag == mon.INPUT_ERROR:
            return
        import dfols
        for clause, detail in roundtrip_violations(s, dfols.solver.OptimResults):
            ex.violate(clause, detail + " [flag %s, %s]" % (s.flag, s.msg))
        ex.tags.add("flag=%d" % s.flag)
        if s.jacobian is None:
            ex.tags.add("no_jacobian")
        if s.obj != s.obj:
            ex.tags.add("nan_obj")
        if s.resid is not None and np.any(np.isnan(s.resid)):
            ex.tags.add("nan_resid")
        if s.jacobian is not None and np.any(~np.isfinite(s.jacobian)):
            ex.tags.add("nonfinite_jacobian")
        if s.diagnostic_info is not None:
            ex.tags.add("with_table")
            if len(s.diagnostic_info) and s.diagnostic_info.isna().any().any():
                ex.tags.add("table_with_nan")
        if s.resid is not None and len(s.resid) >= 100:
            ex.tags.add("m>=100")
        if s.jacobian is not None and np.size(s.jacobian) >= 200:
            ex.tags.add("sizeJ>=200")
        if s.jacmin_eval_nums is not None and len(s.jacmin_eval_nums) >= 100:
            ex.tags.add("npt>=100")


def monitors(cfg):
    return [RoundTripMonitor()]


def classify(cfg, clause, detail):
    up = cfg.get("user_params") or {}
    return {"save_xk": bool(up.get("logging.save_xk")), "save_rk": bool(up.get("logging.save_rk"))}


BOXBALL = [{"t": "box", "l": [0.7, -2.0], "u": [1.0, 2.0]}, {"t": "ball", "c": [0.5, 1.0], "r": 0.25}]
MODES = {
    "plain": {},
    "diag": {"up": {"logging.save_diagnostic_info": True}},
    "diag_nopoised": {"up": {"logging.save_diagnostic_info": True, "logging.save_poisedness": False}},
    "diag_xk": {"up": {"logging.save_diagnostic_info": True, "logging.save_xk": True}},
    "diag_rk": {"up": {"logging.save_diagnostic_info": True, "logging.save_rk": True}},
    "soft_diag": {"up": dict(cfgs.RESTART_MODES["soft"], **{"logging.save_diagnostic_info": True})},
    "hard": {"up": cfgs.RESTART_MODES["hard_old"]},
    "hard_mu0": {"up": dict(cfgs.RESTART_MODES["hard_new"], **{"restarts.max_unsuccessful_restarts": 1})},
    "slow": {"up": {"slow.max_slow_iters": 1, "slow.history_for_slow": 1, "slow.thresh_for_slow": 10.0}},
    "fake": {"up": dict(cfgs.RESTART_MODES["soft"], **{"restarts.soft.max_fake_successful_steps": 1})},
    "boxball_diag": {"sets": BOXBALL, "x0": [-1.2, 0.7], "rhobeg": 0.12, "rhoend": 1e-8, "up": {"logging.save_diagnostic_info": True}},
    "doc_ballbox": {"sets": [{"t": "ball", "c": [0.7, 1.5], "r": 0.4}], "lo": [-2.0, 1.1], "hi": [0.9, 3.0],
                    "x0": [-1.2, 1.0], "rhobeg": 0.12, "rhoend": 1e-8},
    "avg": {"nsamples": "const2", "memo": False, "noise_amp": 0.02},
    "noise_autodetect": {"objfun_has_noise": True, "memo": False, "noise_amp": 0.3,
                         "up": {"restarts.use_soft_restarts": False, "restarts.auto_detect.history": 3,
                                "restarts.auto_detect.min_chgJ_slope": 0.0, "restarts.auto_detect.min_correl": 0.0}},
}
LETTERS = ["nan", "nan1", "inf", "best", "x0", "x3"]


def _mk(prob, mode, maxfun, salt):
    m = MODES[mode]
    cfg = cfgs.base_cfg(prob, salt, npt=3, rhobeg=m.get("rhobeg", 0.3), rhoend=m.get("rhoend", 0.02), maxfun=maxfun,
                        memo=m.get("memo", True), tag_mode=mode)
    for k in ("lo", "hi", "sets", "x0", "nsamples", "noise_amp", "objfun_has_noise"):
        if k in m:
            cfg[k] = m[k]
    if m.get("up"):
        cfg["user_params"] = cfgs.user_params(3, m["up"])
    return cfg


def _configs(tier, salts):
    out = []
    for salt in salts:
        for mode in MODES:
            for prob in ("rosen", "nzr"):
                for maxfun in ((1, 3, 8, 25, 60) if salt == 0 else (8, 25)):
                    cfg = _mk(prob, mode, maxfun, salt)
                    depth = 1 if (cfg.get("memo", True) and maxfun in (8, 25) and (salt == 0 or tier == "thorough")) else 0
                    if tier == "quick" and maxfun == 25 and mode in ("boxball_diag", "doc_ballbox", "diag_nopoised", "hard_mu0"):
                        depth = 0
                    out.append((cfg, {"depth": depth, "letters": LETTERS}))
        if salt == 0 or (tier == "thorough" and salt == 1):
            for name, cfg in cfgs.broad_cfgs(salt=salt, budgets=(3, 9, 30, 70), reg_budgets=(3, 8), overlays=("avg",)):
                depth = 1 if (cfg.get("memo", True) and cfg["maxfun"] == 9 and "reg" not in cfg["broad_flags"]) else 0
                out.append((cfg, {"depth": depth, "letters": ["nan", "nan1", "inf"]}))
        if salt == 0 or (tier == "thorough" and salt == 1):
            out += cfgs.linalg_fault_cfgs(salt, tier)      # results of the linear-algebra exits
        if salt == 0:
            # objective non-finite at every evaluation: results that carry NaN / inf fields
            for mode in ("plain", "diag", "soft_diag", "hard"):
                for L in ("nan", "nan1", "inf"):
                    for maxfun in (1, 4, 20):
                        out.append((dict(_mk("rosen", mode, maxfun, salt), all_letter=L), {"depth": 0}))
            # sizes beyond the printing thresholds
            out.append(({"prob": {"f": "wide", "n": 2, "m": 120, "salt": 0}, "x0": [0.3, -0.2], "maxfun": 30, "memo": True,
                         "user_params": {"logging.save_diagnostic_info": True}}, {"depth": 1, "letters": ["nan"], "kmax": 6}))
            out.append(({"prob": {"f": "wide", "n": 13, "m": 120, "salt": 0}, "x0": [0.1] * 13, "npt": 101, "maxfun": 125,
                         "memo": True}, {"depth": 0}))
            out.append(({"prob": {"f": "wide", "n": 7, "m": 30, "salt": 0}, "x0": [0.1] * 7, "maxfun": 40, "memo": True,
                         "user_params": {"logging.save_diagnostic_info": True}}, {"depth": 0}))
    return out


def _synthetic(report):
    """Result objects for every exit flag with {None, NaN, array} per optional field."""
    import dfols
    from dfols.solver import OptimResults
    import dfols.controller as C
    import pandas as pd
    flags = sorted(set(getattr(C, n) for n in dir(C) if n.startswith("EXIT_") and n != "EXIT_INPUT_ERROR"))
    xs = [np.array([1.0, 2.0]), np.array([np.nan, 2.0])]
    rs = [np.array([0.5, -0.5, 1.0]), np.array([np.nan, np.inf, 1.0]), np.arange(120.0)]
    objs = [1.5, np.nan, np.inf]
    jacs = [None, np.ones((3, 2)), np.array([[np.nan, 1.0], [2.0, 3.0], [4.0, 5.0]]), np.ones((120, 2))]
    evs = [None, np.array([1, 2, 3]), np.arange(1, 121)]
    tabs = [None, "table", "table_nan"]
    n = 0
    seen = set()
    for flag, x, r, obj, jac, ev, tab in itertools.product(flags, xs, rs, objs, jacs, evs, tabs):
        s = OptimResults(x, r, obj, jac, 10, 9, 2, flag, "synthetic message %d" % flag, 4, ev)
        if tab is not None:
            df = pd.DataFrame({"fk": [1.0, 0.5, 0.25], "rho": [0.1, 0.1, 0.01], "iter_type": ["Safety", None, "Successful"],
                               "ratio": [None, 0.5, np.nan] if tab == "table_nan" else [0.1, 0.5, 0.9], "nf": [3, 4, 5]})
            s.diagnostic_info = df
        n += 1
        for clause, detail in roundtrip_violations(s, OptimResults):
            key = (clause, tab is not None, obj != obj, jac is None, ev is None)
            if key in seen:
                continue
            seen.add(key)
            report.add_violation(clause, "synthetic result: " + detail,
                                 {"engine": "synthetic", "flag": flag, "x": x, "resid_len": len(r), "obj": obj,
                                  "jac": None if jac is None else list(jac.shape), "ev": None if ev is None else len(ev), "table": tab},
                                 {"synthetic": True})
    return n, flags


def run(report, tier, seed):
    salts = common.salts_for(tier, seed)
    cps = _configs(tier, salts)
    res = solvex.explore(report, MOD, cps, classify=classify)
    solvex.site_floor(report, res["tags"], exempt=SITE_EXEMPT)
    nsyn, flags = _synthetic(report)
    tags = res["tags"]
    cov = report.coverage
    cov["evaluations"] += nsyn
    cov["synthetic_results"] = nsyn
    reached = sorted(t for t in tags if t.startswith("flag="))
    need = ["no_jacobian", "nan_obj", "nan_resid", "with_table", "table_with_nan", "m>=100", "sizeJ>=200", "npt>=100"]
    missing = [t for t in need if not tags.get(t)]
    if missing or len(reached) < 6:
        raise common.HarnessError("C20 exploration is vacuous: missing %s; flags reached %s" % (missing, reached))
    cov["flags_reached_by_real_runs"] = {t[5:]: tags[t] for t in reached}
    cov["flags_covered_synthetically"] = flags
    cov["rule"] = ("every result object of an E1 exploration (modes x budgets x single answer deviations) plus the Cartesian "
                   "product of {flag} x {None, NaN, array} per optional field for synthetic results; non-trivial = results "
                   "with NaN fields, without a Jacobian or with a diagnostic table")
    cov["distinct_nontrivial"] = int(tags.get("nan_obj", 0) + tags.get("no_jacobian", 0) + tags.get("with_table", 0))
    cov["salts"] = salts
    report.assumptions += ["row labels must come back as integers (exact reproduction of the table)"]


def replay(rep):
    if rep.get("engine") == "synthetic":
        print("synthetic case:", rep)
        return 0
    ex = solvex.replay(rep)
    return 1 if ex.viol else 0
