"""C02 - evaluation budget and counters are exact.

alphabet: problem x maxfun=1..K x nsamples callback x restart mode x noise mode (x NS-callback deviations in thorough)
bound   : every budget from 1 to K (so the budget ends inside every phase); n=2 (thorough adds n=3, npt=2n+1)
oracle  : the harness's own call counter and the (evaluation number, point number) labels carried by the evaluation
          seam, cross-checked against the 'Function eval i at point j' log records.
"""
import re
import logging

import numpy as np

from .. import common, solvex, cfgs

LEVEL = "exploration"
MOD = "C02"
SITE_EXEMPT = {}     # evaluation sites this check cannot reach (site -> reason); see solvex.site_floor
_RE = re.compile(r"Function eval (\d+) at point (\d+) has obj")


class _LogCatcher(logging.Handler):
    def __init__(self):
        logging.Handler.__init__(self, level=logging.INFO)
        self.recs = []

    def emit(self, record):
        try:
            m = _RE.match(record.getMessage())
        except Exception:  # noqa: BLE001
            return
        if m:
            self.recs.append((int(m.group(1)), int(m.group(2))))


class BudgetMonitor(solvex.Monitor):
    def __init__(self, check_returns=True):
        self.check_returns = check_returns

    def start(self, ex):
        self.h = None
        if ex.cfg.get("do_logging"):
            self.h = _LogCatcher()
            lg = logging.getLogger("dfols")
            self.old_level = lg.level
            lg.setLevel(logging.INFO)
            lg.addHandler(self.h)

    def on_call(self, ex, call):
        maxfun = ex.cfg.get("maxfun")
        if maxfun is not None and call["k"] > maxfun:
            ex.violate("budget", "call %d made with maxfun=%d (site %s)" % (call["k"], maxfun, call["site"]))

    def on_end(self, ex):
        if self.h is not None:
            lg = logging.getLogger("dfols")
            lg.removeHandler(self.h)
            lg.setLevel(self.old_level)
        cfg = ex.cfg
        calls = ex.calls
        ncalls = len(calls)
        maxfun = cfg["maxfun"]
        s = ex.soln
        if ex.outcome != "returned":
            if ex.outcome == "raised" and self.check_returns:
                ex.violate("returns", "solve raised %s: %s" % (type(ex.exc).__name__, ex.exc))
            return
        if s.flag == s.EXIT_INPUT_ERROR:
            if self.check_returns:
                ex.violate("returns", "input error for a valid configuration: %s" % s.msg)
            return
        if s.nf != ncalls:
            ex.violate("nf", "soln.nf=%s but objfun was called %d times" % (s.nf, ncalls))
        # labels: evaluation numbers 1,2,... ; point numbers 1,.. increasing by 0/1; equal point number => identical x
        prev_pt = 0
        groups = []
        for c in calls:
            if c["eval_num"] != c["k"]:
                ex.violate("eval_numbering", "call %d labelled evaluation %s" % (c["k"], c["eval_num"]))
                break
            pt = c["pt_num"]
            if pt is None or pt - prev_pt not in (0, 1) or (c["k"] == 1 and pt != 1):
                ex.violate("point_numbering", "call %d labelled point %s after point %s" % (c["k"], pt, prev_pt))
                break
            if pt == prev_pt:
                if groups[-1][0]["x"].tobytes() != c["x"].tobytes():
                    ex.violate("same_point_same_x", "calls %d and %d share point number %d but x differs: %s vs %s" % (
                        groups[-1][0]["k"], c["k"], pt, groups[-1][0]["x"].tolist(), c["x"].tolist()))
                    break
                groups[-1].append(c)
            else:
                groups.append([c])
            prev_pt = pt
        else:
            if s.nx != prev_pt:
                ex.violate("nx", "soln.nx=%s but last point number is %s" % (s.nx, prev_pt))
            if cfg.get("nsamples") is None and s.nx != s.nf:
                ex.violate("nx_eq_nf", "no averaging but nx=%s nf=%s" % (s.nx, s.nf))
            # samples per point: the latest answer of the callback before the point's first evaluation, at least 1
            if cfg.get("nsamples") is not None:
                for gi, g in enumerate(groups):
                    first = g[0]["k"]
                    ans = None
                    for nc in ex.ns_calls:
                        if nc["ncalls"] < first:
                            ans = nc["ans"]
                        else:
                            break
                    if ans is None:
                        ex.violate("samples", "point %d evaluated before the nsamples callback was consulted" % g[0]["pt_num"])
                        break
                    want = max(int(ans), 1)
                    last = gi == len(groups) - 1
                    if len(g) != want and not (last and ncalls == maxfun and len(g) < want):
                        ex.violate("samples", "point %d got %d sample(s), callback asked for %d (nf=%d maxfun=%d)" % (
                            g[0]["pt_num"], len(g), want, ncalls, maxfun))
                        break
                    if len(g) > 1:
                        ex.tags.add("multi_sample")
                    if last and len(g) < want:
                        ex.tags.add("partial_point")
        if self.h is not None:
            want = [(c["eval_num"], c["pt_num"]) for c in calls]
            if self.h.recs != want:
                ex.violate("log", "log records %s... differ from seam labels %s..." % (self.h.recs[:6], want[:6]))
        # non-vacuity
        if ncalls == maxfun:
            ex.tags.add("budget_hit")
            ex.tags.add("budget_hit@" + calls[-1]["site"])
        if ex.soft_restarts:
            ex.tags.add("soft_restart")
        if len(ex.controllers) > 1:
            ex.tags.add("hard_restart")
        if s.nruns and s.nruns > 1:
            ex.tags.add("multi_run")


def monitors(cfg):
    return [BudgetMonitor()]


def classify(cfg, clause, detail):
    return {"restart": cfg.get("tag_restart"), "nsamples": cfg.get("nsamples"), "noise": cfg.get("tag_noise")}


def _configs(tier, salts):
    out = []
    probs = [("rosen", 2), ("nzr", 2)]
    if tier == "thorough":
        probs += [("nzr3", 3), ("inv", 3)]
    ns_specs = [None, "const2", "const3", "iter%3+1", "nruns+1", "const0"]
    for salt in salts:
        for prob, n in probs:
            npts = [n + 1] if tier == "quick" else [n + 1, 2 * n + 1]
            for npt in npts:
                for rmode, rp in cfgs.RESTART_MODES.items():
                    for nmode, (np_, has_noise) in cfgs.NOISE_MODES.items():
                        if salt != 0 and (nmode != "off"):
                            continue   # extra salts vary the data only on the noise-free rows
                        for ns in ns_specs:
                            K = 2 * npt * (3 if ns in ("const3",) else 2) + 25
                            if rmode != "none":
                                K += 20
                            step = 1
                            for maxfun in range(1, K + 1, step):
                                up = cfgs.user_params(npt, rp, np_)
                                cfg = cfgs.base_cfg(prob, salt, npt=npt, rhobeg=0.3, rhoend=0.05, maxfun=maxfun,
                                                    nsamples=ns, user_params=up, objfun_has_noise=has_noise,
                                                    do_logging=True, memo=False, tag_restart=rmode, tag_noise=nmode)
                                plan = {"depth": 0}
                                if tier == "thorough" and ns is not None and maxfun in (K, K // 2) and salt == 0:
                                    plan = {"depth": 1, "ns_letters": [1, 2, 3, 0]}
                                out.append((cfg, plan))
        # declared linear-algebra faults (counters across error-recovery restarts)
        if salt == 0 or (tier == "thorough" and salt == 1):
            for cfg, plan in cfgs.linalg_fault_cfgs(salt, tier):
                out.append((dict(cfg, do_logging=True, tag_restart="la", tag_noise="la"), plan))
        # the broad option bank with the log switched on, every second budget up to 60
        if salt == 0 or (tier == "thorough" and salt == 1):
            plain = cfgs.broad_cfgs(salt=salt, budgets=tuple(range(1, 61, 2 if tier == "quick" else 1)), reg_budgets=(1, 5, 9))
            pairs = [t for t in cfgs.broad_cfgs(salt=salt, budgets=(9, 20, 33, 46, 60) if tier == "quick" else tuple(range(1, 61, 2)),
                                                exclude=("reg",), overlays=("avg", "soft")) if "+" in t[0]]
            for name, cfg in plain + pairs:
                cfg = dict(cfg, do_logging=True, tag_restart="broad", tag_noise="broad")
                out.append((cfg, {"depth": 0}))
    return out


def run(report, tier, seed):
    salts = common.salts_for(tier, seed)
    cps = _configs(tier, salts)
    res = solvex.explore(report, MOD, cps, classify=classify)
    solvex.site_floor(report, res["tags"], exempt=SITE_EXEMPT)
    cov = report.coverage
    tags = res["tags"]
    need = ["budget_hit", "multi_sample", "partial_point", "soft_restart", "hard_restart",
            "budget_hit@x0", "budget_hit@initialise_coordinate_directions", "budget_hit@main/trial",
            "budget_hit@geom/soft_restart"]
    missing = [t for t in need if not tags.get(t)]
    if missing:
        raise common.HarnessError("C02 exploration is vacuous: never reached %s" % missing)
    cov["rule"] = ("every (problem, npt, restart mode, noise mode, nsamples callback, maxfun=1..K, salt) is one execution "
                   "of dfols.solve under a recording environment; non-trivial = distinct (exit flag, message, runs, last "
                   "evaluation site) outcomes in which the budget, averaging or a restart was exercised")
    cov["distinct_nontrivial"] = cov["distinct_outcomes"]
    cov["salts"] = salts
    report.assumptions += ["point/evaluation numbers are read from the keyword arguments of the evaluation seam and "
                           "cross-checked against the log records", "n<=3, maxfun<=K (K=2*init cost+25..45)"]


def replay(rep):
    ex = solvex.replay(rep)
    return 1 if ex.viol else 0
