"""C19 - results are reproducible and caller data are never modified.

alphabet: configuration {default, bounded, scaled, every convex-set subset of C09's bank (x0 interior / at a boundary
          crossing), regression, regularised, soft restarts, averaging} with EVERY draw from np.random made during solve
          as a choice point answered from three maximally different menus (all single deviations), plus runs under the
          real global generator seeded differently, repeated invocation in one process and a fresh-process comparison.
oracle  : bit-equality of the fingerprints (complete sequence of evaluation points, answers and result fields);
          byte-equality of caller-side copies of x0, the bound arrays and the user_params dictionary.
"""
import itertools
import numpy as np

from .. import common, gridx, solvex, cfgs, bank
from . import C09

LEVEL = "exploration"
MOD = "vf.props.C19"

BOX = {"lo": [-1.5, -0.5], "hi": [0.9, 1.7]}


def cases(tier, salts):
    out = []
    for salt in salts:
        base = []
        for prob in ("rosen", "nzr"):
            base.append(("default", cfgs.base_cfg(prob, salt, maxfun=50)))
            base.append(("bounded", cfgs.base_cfg(prob, salt, maxfun=50, **BOX)))
            base.append(("scaled", cfgs.base_cfg(prob, salt, maxfun=50, scaling=True, **BOX)))
            base.append(("bounded_infeasible", dict(cfgs.base_cfg(prob, salt, maxfun=30, **BOX), x0=[-2.5, 2.5])))
            base.append(("scaled_infeasible", dict(cfgs.base_cfg(prob, salt, maxfun=30, scaling=True, **BOX), x0=[1.5, -1.0])))
            base.append(("onesided", dict(cfgs.base_cfg(prob, salt, maxfun=30, lo=[-1.0, None], hi=None), x0=[-2.5, 2.5])))
            # infinite entries in the caller's bound arrays (accepted, and treated like the documented 1e20)
            base.append(("onesided_inf", dict(cfgs.base_cfg(prob, salt, maxfun=30, lo=["inf", -0.5], hi=[0.9, "inf"]), x0=[-2.5, 2.5])))
            base.append(("regression", cfgs.base_cfg(prob, salt, maxfun=50, npt=5)))
            # the largest point count the deterministic coordinate initialisation supports: (n+1)(n+2)/2
            base.append(("regression_max", cfgs.base_cfg(prob, salt, maxfun=50, npt=6)))
            base.append(("regression_max_bounded", cfgs.base_cfg(prob, salt, maxfun=40, npt=6, **BOX)))
            base.append(("soft", cfgs.base_cfg(prob, salt, maxfun=60, rhobeg=0.3, rhoend=0.02,
                                               user_params={"restarts.use_restarts": True})))
            base.append(("hard", cfgs.base_cfg(prob, salt, maxfun=60, rhobeg=0.3, rhoend=0.02,
                                               user_params={"restarts.use_restarts": True, "restarts.use_soft_restarts": False})))
            base.append(("avg", cfgs.base_cfg(prob, salt, maxfun=40, nsamples="const2", memo=False, noise_amp=0.01)))
            base.append(("diag", cfgs.base_cfg(prob, salt, maxfun=40, user_params={"logging.save_diagnostic_info": True})))
            if salt == 0:
                base.append(("regularised", cfgs.base_cfg(prob, salt, maxfun=12, reg={"r": "l1", "lam": 0.05})))
        # a growing phase with the DEFAULT growing method: for m >= n the documentation promises the deterministic full-rank
        # completion (random perturbations are the default only for m < n) - square and over-determined systems
        for gp in ("rosen", "nzr", "rosen3", "nzr3"):
            base.append(("grow_default/" + gp, cfgs.base_cfg(gp, salt, maxfun=40, user_params={"growing.ndirs_initial": 1})))
        # ... and a square system with n = 4 (wave k: `m < n` written as `m <= n` switches square systems to the random method;
        # with n = 2 the single perturbed step does not change the outcome)
        A4 = [[2.0, -1.0, 0.5, 0.0], [0.3, 1.5, -0.7, 0.2], [-0.4, 0.6, 1.8, 0.9], [1.0, 0.1, -0.3, 2.2]]
        for nd in (1, 2, 3):
            base.append(("grow_default/square4", {"prob": {"f": "lin", "A": A4, "b": [0.5, -1.0, 0.25, 2.0], "salt": salt}, "x0": [1.0, -0.5, 0.3, 0.8],
                                                  "memo": True, "maxfun": 40, "user_params": {"growing.ndirs_initial": nd}}))
        base.append(("n3", cfgs.base_cfg("rosen3", salt, maxfun=60)))
        base.append(("n3_regression_max", cfgs.base_cfg("rosen3", salt, maxfun=60, npt=10)))
        base.append(("n1_regression_max", cfgs.base_cfg("one", salt, maxfun=30, npt=3)))
        base.append(("inverse", cfgs.base_cfg("inv", salt, maxfun=60)))
        specs = C09.set_bank(2, salt)
        subsets = [c for L in (1, 2, 3) for c in itertools.combinations(range(len(specs)), L)]
        if tier == "quick":
            subsets = [c for c in subsets if len(c) <= 2] + [c for c in subsets if len(c) == 3][::4]
        for sub in subsets:
            sets = [bank.CSet(specs[i]) for i in sub]
            for bnd in (False, True):
                lo = np.array(C09.BOUNDS["lo"][:2]) if bnd else None
                hi = np.array(C09.BOUNDS["hi"][:2]) if bnd else None
                starts = {"interior": np.array(C09.INTERIOR[:2]), "crossing": C09._proj_ref(sets, np.array([3.0, 2.5]), lo, hi),
                          "far": np.array([-3.0, -1.0])}
                for sname, x0 in starts.items():
                    cfg = {"prob": {"f": "rosen", "salt": salt}, "x0": x0.tolist(), "sets": [specs[i] for i in sub],
                           "rhobeg": 0.2, "rhoend": 1e-3, "maxfun": 25, "memo": True}
                    if bnd:
                        cfg["lo"], cfg["hi"] = lo.tolist(), hi.tolist()
                    base.append(("convex/" + sname, cfg))
        # deterministic modes of the broad option bank (everything not documented as using random directions)
        if salt == 0 or (tier == "thorough" and salt == 1):
            for name, cfg in cfgs.broad_cfgs(salt=salt, exclude=("random",), probs=("nzr",), budgets=(30,), reg_budgets=(8,)):
                base.append(("broad_" + name, cfg))
        for name, cfg in base:
            out.append({"name": name, "cfg": cfg})
    return out


class CallerData(solvex.Monitor):
    def on_end(self, ex):
        snap = ex.user_snapshots
        if not np.array_equal(snap["x0"], ex.x0) or snap["x0"].tobytes() != ex.x0.tobytes():
            ex.violate("x0_modified", "caller's x0 changed from %s to %s" % (snap["x0"].tolist(), ex.x0.tolist()))
        for nm, arr in (("lo", ex.lo), ("hi", ex.hi)):
            if arr is not None and snap[nm].tobytes() != arr.tobytes():
                ex.violate("bounds_modified", "caller's %s bound array changed from %s to %s" % (nm, snap[nm].tolist(), arr.tolist()))
        if ex.user_params is not None and ex.user_params != snap["user_params"]:
            ex.violate("user_params_modified", "caller's user_params changed from %r to %r" % (snap["user_params"], ex.user_params))
        for st in ex.sets:
            pass


def persistent_state():
    """Everything mutable that outlives a call of solve(): containers bound at module level or as class attributes of the
    package, and mutable default arguments of its functions and methods.  'The result depends only on the arguments'
    requires that a call leaves all of it as it found it."""
    import types
    import dfols.solver, dfols.controller, dfols.model, dfols.util, dfols.params, dfols.trust_region, dfols.diagnostic_info, dfols.hessian
    mods = [dfols.solver, dfols.controller, dfols.model, dfols.util, dfols.params, dfols.trust_region, dfols.diagnostic_info, dfols.hessian]
    out = {}

    def rec(key, val):
        if isinstance(val, np.ndarray):
            out[key] = ("ndarray", val.shape, val.tobytes())
        elif isinstance(val, (list, dict, set, bytearray)):
            out[key] = (type(val).__name__, repr(val)[:2000])

    def fdefaults(key, fn):
        fn = getattr(fn, "__wrapped__", fn)
        for i, d in enumerate(getattr(fn, "__defaults__", None) or ()):
            rec("%s.__defaults__[%d]" % (key, i), d)
        for k, d in (getattr(fn, "__kwdefaults__", None) or {}).items():
            rec("%s.__kwdefaults__[%s]" % (key, k), d)
    for mod in mods:
        for name, val in list(vars(mod).items()):
            if name.startswith("__") or isinstance(val, types.ModuleType):
                continue
            key = mod.__name__ + "." + name
            if isinstance(val, type):
                if getattr(val, "__module__", "").startswith("dfols"):
                    for attr, v in list(vars(val).items()):
                        if attr.startswith("__"):
                            continue
                        if callable(v):
                            fdefaults(key + "." + attr, v)
                        else:
                            rec(key + "." + attr, v)
            elif callable(val):
                if getattr(getattr(val, "__wrapped__", val), "__module__", "").startswith("dfols"):
                    fdefaults(key, val)
            else:
                rec(key, val)
    return out


def _run(cfg, devs=(), own=True, seed=None):
    c = dict(cfg, own_rng=own)
    if seed is not None:
        np.random.seed(seed)
    ex = solvex.Execution(c, devs, monitors=[CallerData()]).run()
    return ex


def check_case(case):
    cfg = case["cfg"]
    v = []
    tags = ["cfg:" + case["name"].split("/")[0]]
    before = persistent_state()
    a = _run(cfg)
    after = persistent_state()
    changed = sorted(k for k in set(before) | set(after) if before.get(k) != after.get(k))
    if changed:
        v.append(("persistent_state", "solve() left a trace in state that outlives the call: %s (e.g. %s: %s -> %s)" % (
            changed[:4], changed[0], str(before.get(changed[0]))[:80], str(after.get(changed[0]))[:80])))
    if a.outcome != "returned":
        return [("returns", "solve did not return: %s %s: %s" % (a.outcome, type(a.exc).__name__, a.exc))], tags
    fa = a.fingerprint()
    tags.append("fp:" + fa)
    v += [(c, d) for c, d in a.viol]
    b = _run(cfg)
    if b.fingerprint() != fa:
        v.append(("repeat_in_process", "second invocation in the same process differs: %d vs %d evaluations, %s vs %s" % (
            len(a.calls), len(b.calls), a.describe().get("x"), b.describe().get("x"))))
    ndraw = len(a.rng_calls)
    if ndraw:
        tags.append("draws_rng")
    for i in range(1, ndraw + 1):
        for menu in (1, 2):
            c = _run(cfg, [("rng", i, menu)])
            if c.fingerprint() != fa:
                v.append(("rng_dependence", "result depends on draw %d of np.random.%s: with a different answer the run has %d "
                          "evaluations / x=%s instead of %d / x=%s" % (i, a.rng_calls[i - 1]["fn"], len(c.calls),
                                                                        c.describe().get("x"), len(a.calls), a.describe().get("x"))))
                break
    # the real global generator in two different states (catches RNG entry points the harness does not own)
    d1 = _run(cfg, own=False, seed=12345)
    st = np.random.get_state()[1][:4].tolist()
    d2 = _run(cfg, own=False, seed=999)
    if d1.fingerprint() != d2.fingerprint():
        v.append(("global_rng_state", "runs under np.random.seed(12345) and seed(999) differ: %d vs %d evaluations, x=%s vs %s" % (
            len(d1.calls), len(d2.calls), d1.describe().get("x"), d2.describe().get("x"))))
    elif d1.fingerprint() != fa:
        v.append(("global_rng_state", "run under the real generator differs from the run under the owned generator"))
    v += [(c, d) for c, d in d1.viol if (c, d) not in v]
    if any(np.any(c["x"] == np.array(cfg.get("hi", [np.inf] * a.n), dtype=float)) for c in a.calls if cfg.get("hi")):
        tags.append("touches_bound")
    return v, tags


def classify(case, clause, detail):
    return {"cfg": case["name"]}


def run(report, tier, seed):
    salts = common.salts_for(tier, seed)
    cs = cases(tier, salts)
    tags = gridx.run_grid(report, MOD, cs, classify=classify, chunk=2)
    cov = report.coverage
    # fresh-process comparison: the workers' fingerprints for a fixed subset must equal the ones computed here
    fps = set(t[3:] for t in tags if t.startswith("fp:"))
    n_cross = 0
    for case in cs[:: max(1, len(cs) // 10)][:10]:
        a = _run(case["cfg"])
        if a.fingerprint() not in fps:
            report.add_violation("fresh_process", "configuration %s gives a different result in a separately started process" % case["name"],
                                 {"engine": "gridx", "module": MOD, "case": case}, {"cfg": case["name"]})
        n_cross += 1
    for t in list(tags):
        if t.startswith("fp:"):
            del tags[t]
    cov["tags"] = dict(sorted(tags.items()))
    kinds = sorted(t for t in tags if t.startswith("cfg:"))
    if len(kinds) < 9:
        raise common.HarnessError("C19 is vacuous: configuration kinds %s" % kinds)
    cov["distinct_fingerprints"] = len(fps)
    cov["cross_process_comparisons"] = n_cross
    cov["configurations_that_draw_random_numbers"] = tags.get("draws_rng", 0)
    cov["rule"] = ("per configuration: owned-RNG run, repeat, every single RNG-answer deviation, two runs under the real "
                   "generator with different seeds; non-trivial = distinct fingerprints (distinct complete evaluation "
                   "sequences) compared")
    cov["distinct_nontrivial"] = len(fps)
    cov["salts"] = salts
    report.assumptions += ["np.random.normal/randint/seed are the RNG entry points owned; other entry points are covered by "
                           "the two differently seeded real-generator runs"]


def replay(rep):
    v = gridx.replay_case(MOD, rep["case"])
    return 1 if v else 0
