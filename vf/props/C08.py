"""C08 - bad objective values at any evaluation are survived gracefully.

alphabet: configuration x base function x EVERY evaluation index k of the (possibly already deviated) run x fault kind
          {nan, nan1 (one component), inf, -inf, inf1, 1e200, raise}; plus 'every call faulty'
bound   : all single faults (quick), all pairs of faults on three configurations (thorough)
oracle  : recorded calls before / after the fault (see monitors.FaultMonitor); the exact-bounds and exact-budget
          monitors of C01 / C02 stay switched on.
"""
from .. import common, solvex, cfgs, monitors as mon
from . import C02

LEVEL = "fault_enumeration"
MOD = "C08"
SITE_EXEMPT = {}     # evaluation sites this check cannot reach (site -> reason); see solvex.site_floor

BOX = {"lo": [-1.5, -0.5], "hi": [0.9, 1.7]}
MODES = {
    "plain": {},
    "bounds": dict(BOX),
    "scaling": dict(BOX, scaling=True),
    "sets": {"sets": [{"t": "ball", "c": [0.0, 0.5], "r": 1.6}, {"t": "half", "a": [1.0, 1.0], "b": 1.6}]},
    "soft": {"up": cfgs.RESTART_MODES["soft"]},
    "hard_old": {"up": cfgs.RESTART_MODES["hard_old"]},
    "hard_new": {"up": cfgs.RESTART_MODES["hard_new"]},
    # without memoisation: a hard restart with use_old_rk=False evaluates the incumbent AGAIN, and that evaluation can be the bad
    # one (with memoisation a repeated x gets its first answer and is no choice point)
    "hard_new_nomemo": {"up": cfgs.RESTART_MODES["hard_new"], "memo": False},
    "avg2": {"nsamples": "const2", "memo": False, "noise_amp": 0.02},
    "regression": {"npt": 5},
    "growing": {"up": {"growing.ndirs_initial": 1}},
    "optin": {"up": {"interpolation.throw_error_on_nans": True}},
    "nooverflowcheck": {"up": {"general.check_objfun_for_overflow": False}},
}
FAULTS = ["nan", "nan1", "inf", "-inf", "inf1", "1e200", "raise"]


def _mk(prob, mode, salt, maxfun=40):
    m = MODES[mode]
    npt = m.get("npt", 3)
    cfg = cfgs.base_cfg(prob, salt, npt=npt, rhobeg=0.3, rhoend=0.02, maxfun=maxfun, memo=m.get("memo", True), tag_mode=mode)
    for k in ("lo", "hi", "scaling", "sets", "nsamples", "noise_amp"):
        if k in m:
            cfg[k] = m[k]
    if m.get("up"):
        cfg["user_params"] = cfgs.user_params(npt, m["up"])
    return cfg


def _configs(tier, salts):
    out = []
    for salt in salts:
        for mode in MODES:
            for prob in ("rosen", "nzr"):
                cfg = _mk(prob, mode, salt)
                depth = 1
                letters = FAULTS
                if tier == "quick" and salt != 0:
                    letters = ["nan", "inf1", "raise"]
                if tier == "thorough" and salt == 0 and prob == "nzr" and mode in ("plain", "soft", "avg2"):
                    depth, letters = 2, ["nan", "inf1", "1e200", "raise"]
                out.append((cfg, {"depth": depth, "letters": letters}))
                # every call faulty
                if salt == 0:
                    for L in FAULTS:
                        c2 = dict(cfg, all_letter=L)
                        out.append((c2, {"depth": 0}))
    # a fault at the LAST evaluation the budget allows, for every budget (wave j: a NaN at the re-evaluation of x0 that opens a
    # hard-restarted run, when that evaluation is also the last one, replaced the finite incumbent of the earlier runs)
    for salt in salts[:1] if tier == "quick" else salts[:2]:
        for mode in ("plain", "bounds", "soft", "hard_old", "hard_new", "hard_new_nomemo", "avg2", "regression", "growing"):
            for prob in ("rosen", "nzr"):
                for B in range(1, 49 if mode.startswith("hard") or tier == "thorough" else 25):
                    cfg = _mk(prob, mode, salt, maxfun=B)
                    cfg["tag_mode"] = mode + "/budget_end"
                    out.append((cfg, {"depth": 1, "letters": ["nan", "nan1", "inf", "1e200", "raise"], "only_last": True}))
    # the broad option bank: every evaluation index x three fault kinds (all kinds in thorough)
    for salt in salts:
        if salt != 0 and (tier == "quick" or salt > 1):
            continue
        for name, cfg in cfgs.broad_cfgs(salt=salt, probs=("nzr",) if tier == "quick" else ("rosen", "nzr"), budgets=(30,), reg_budgets=(7,),
                                         overlays=("soft",) if tier == "quick" else ("soft", "avg")):
            letters = ["nan1", "1e200", "raise"] if tier == "quick" else FAULTS
            if "reg" in cfg["broad_flags"]:
                letters = ["nan"]
            out.append((cfg, {"depth": 1, "letters": letters}))
    return out


def monitors(cfg):
    return [mon.FaultMonitor(), mon.BoundsMonitor(), C02.BudgetMonitor(check_returns=False)]


def classify(cfg, clause, detail):
    return {"mode": cfg.get("tag_mode")}


def run(report, tier, seed):
    salts = common.salts_for(tier, seed)
    cps = _configs(tier, salts)
    res = solvex.explore(report, MOD, cps, classify=classify)
    solvex.site_floor(report, res["tags"], exempt=SITE_EXEMPT)
    tags = res["tags"]
    cov = report.coverage
    triples = sorted(t for t in tags if t.startswith("fault_exit|"))
    fsites = sorted(set(t.split("|")[0][6:] for t in tags if t.startswith("fault@")))
    need_sites = ["x0", "initialise_coordinate_directions", "main/trial", "main/final_check", "geom/check_and_fix_geometry",
                  "geom/soft_restart"]
    missing = [s for s in need_sites if s not in fsites]
    if missing or len(triples) < 15 or not tags.get("optin_linalgerror"):
        raise common.HarnessError("C08 exploration is vacuous: fault sites missing %s, %d (site, exit) pairs, optin=%s" % (
            missing, len(triples), tags.get("optin_linalgerror")))
    cov["rule"] = ("for every configuration, every evaluation index k of the reference run x every fault kind is one execution "
                   "(plus all-calls-faulty runs; thorough: all pairs of faults on three configurations); non-trivial = "
                   "distinct (evaluation site of the first fault, exit message) pairs")
    cov["distinct_nontrivial"] = len(triples)
    cov["fault_sites"] = fsites
    cov["fault_site_exit_pairs"] = {t[11:]: tags[t] for t in triples}
    cov["salts"] = salts
    report.assumptions += ["fault kinds limited to NaN, +/-inf, 1e200 (whole vector or one component) and a raised exception",
                           "n=2, maxfun=40"]


def replay(rep):
    ex = solvex.replay(rep)
    return 1 if ex.viol else 0
