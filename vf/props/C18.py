"""C18 - trust-region radii and the diagnostic table obey their invariants.

alphabet: problem x mode (default, npt=2n+1, growing +- reset_delta/reset_rho, noise defaults, averaging, soft, hard,
          soft+increase_npt, rhoend_scale<1) x bounds on/off x maxfun x answer deviations {x0.3, tie, x3, x1e3}
bound   : <=1 deviation (quick) / <=2 on a reduced set (thorough); n=2
oracle  : time-series predicates on soln.diagnostic_info; the columns are those named in docs/diagnostic.rst.
"""
import os
import re
import numpy as np

from .. import common, solvex, cfgs, monitors as mon

LEVEL = "exploration"
MOD = "C18"
SITE_EXEMPT = {}     # evaluation sites this check cannot reach (site -> reason); see solvex.site_floor

BOX = {"lo": [-1.5, -0.5], "hi": [0.9, 1.7]}
DIAG = {"logging.save_diagnostic_info": True}
MODES = {
    "default": {},
    "npt2n1": {"npt": 5},
    "growing": {"up": {"growing.ndirs_initial": 1}},
    "growing_reset": {"up": {"growing.ndirs_initial": 1, "growing.reset_delta": True, "growing.reset_rho": True}},
    "growing_reset_delta": {"up": {"growing.ndirs_initial": 1, "growing.reset_delta": True}},
    "growing_geom": {"up": {"growing.ndirs_initial": 1, "growing.num_new_dirns_each_iter": 1, "growing.do_geom_steps": True}},
    "growing_safety": {"up": {"growing.ndirs_initial": 1, "growing.safety.full_geom_step": True}},
    "noise": {"objfun_has_noise": True, "memo": False, "noise_amp": 0.02},
    "avg2": {"nsamples": "const2", "memo": False, "noise_amp": 0.02},
    "soft": {"up": cfgs.RESTART_MODES["soft"]},
    "soft_scale": {"up": dict(cfgs.RESTART_MODES["soft"], **{"restarts.rhoend_scale": 0.5})},
    "hard": {"up": cfgs.RESTART_MODES["hard_old"]},
    "hard_scale": {"up": dict(cfgs.RESTART_MODES["hard_new"], **{"restarts.rhoend_scale": 0.5})},
    "soft_inc": {"up": cfgs.RESTART_MODES["soft_inc"]},
    "soft_inc2": {"up": dict(cfgs.RESTART_MODES["soft"], **{"restarts.increase_npt": True, "restarts.increase_npt_amt": 2,
                                                           "restarts.max_npt_plus": 3})},
    "hard_inc2": {"up": dict(cfgs.RESTART_MODES["hard_old"], **{"restarts.increase_npt": True, "restarts.increase_npt_amt": 2,
                                                               "restarts.max_npt_plus": 3})},
    "regression": {"npt": 5, "up": {"regression.num_extra_steps": 1}},
    "inv": {"prob": "inv"},
    # a minimiser 1e12 away with rhobeg = 1e3: a streak of very successful steps multiplies delta by 4 each time until the cap
    "far_minimiser": {"far": 1e12, "rhobeg": 1e3},
    "far_minimiser_soft": {"far": 1e12, "rhobeg": 1e3, "up": cfgs.RESTART_MODES["soft"]},
    "huge_x0": {"far": 0.0, "x0": [1e10, -3e10]},
}
LETTERS = ["x0.3", "tie", "x3", "x1e3"]
_COLS = None


def documented_columns():
    global _COLS
    if _COLS is None:
        path = os.path.join(common.REPO, "docs", "diagnostic.rst")
        cols = []
        with open(path) as f:
            for line in f:
                m = re.match(r"\* :code:`(\w+)` - ", line)
                if m:
                    cols.append(m.group(1))
        _COLS = cols
    return _COLS


class DiagMonitor(solvex.Monitor):
    def on_end(self, ex):
        if ex.outcome != "returned":
            if ex.outcome == "raised" and not mon.raise_is_allowed(ex):
                ex.violate("returns", "solve raised %s: %s" % (type(ex.exc).__name__, ex.exc))
            return
        s = ex.soln
        if s.flag == mon.INPUT_ERROR:
            ex.violate("returns", "input error for a valid configuration: %s" % s.msg)
            return
        df = s.diagnostic_info
        cfg = ex.cfg
        up = cfg.get("user_params") or {}
        if df is None:
            ex.violate("table_present", "diagnostic table missing although logging.save_diagnostic_info is on")
            return
        cols = [c for c in documented_columns() if c not in ("xk", "rk")]
        miss = [c for c in cols if c not in df.columns]
        if miss:
            ex.violate("columns", "documented columns missing from the table: %s" % miss)
            return
        if len(df) != ex.iters_with_diag:
            ex.violate("one_row_per_iteration", "%d rows for %d iterations that reached the recording point" % (len(df), ex.iters_with_diag))
        if len(df) == 0:
            ex.tags.add("empty_table")
            return
        rho = df["rho"].to_numpy(dtype=float)
        delta = df["delta"].to_numpy(dtype=float)
        nruns = df["nruns"].to_numpy()
        rhobeg = cfg.get("rhobeg", 0.1 if cfg.get("scaling") else 0.1 * max(float(np.max(np.abs(cfg["x0"]))), 1.0))
        rhoend = cfg.get("rhoend", 1e-8)
        scale = up.get("restarts.rhoend_scale", 1.0)
        for i in range(len(df)):
            if not (delta[i] >= rho[i] > 0):
                ex.violate("delta_ge_rho", "row %d: delta=%r rho=%r" % (i, delta[i], rho[i]))
                break
            lo = rhoend * scale ** int(nruns[i])
            if not (lo * (1 - 1e-12) <= rho[i] <= rhobeg * (1 + 1e-12)):
                ex.violate("rho_range", "row %d (run %d): rho=%r outside [rhoend*scale^run=%r, rhobeg=%r]" % (i, nruns[i], rho[i], lo, rhobeg))
                break
            if not delta[i] <= 1e10:
                ex.violate("delta_cap", "row %d: delta=%r > 1e10" % (i, delta[i]))
                break
        reset_rho = bool(up.get("growing.reset_rho"))
        for i in range(1, len(df)):
            if nruns[i] == nruns[i - 1] and rho[i] > rho[i - 1] * (1 + 1e-15) and not reset_rho:
                ex.violate("rho_monotone", "row %d: rho increased from %r to %r within run %d" % (i, rho[i - 1], rho[i], nruns[i]))
                break
        if cfg.get("memo", True) and cfg.get("nsamples") is None:
            fk = df["fk"].to_numpy(dtype=float)
            for i in range(1, len(df)):
                if fk[i] > fk[i - 1] * (1 + 1e-14) + 1e-300:
                    ex.violate("fk_monotone", "row %d: recorded best objective increased from %r to %r" % (i, fk[i - 1], fk[i]))
                    break
        it = df["iters_total"].to_numpy()
        if list(it) != list(range(len(df))):
            ex.violate("iters_total", "iters_total is not 0,1,2,...: %s" % list(it)[:12])
        itr = df["iter_this_run"].to_numpy()
        for i in range(len(df)):
            want = 0 if (i == 0 or nruns[i] != nruns[i - 1]) else itr[i - 1] + 1
            if itr[i] != want:
                ex.violate("iter_this_run", "row %d: iter_this_run=%s, expected %s (run %s)" % (i, itr[i], want, nruns[i]))
                break
        for col, final in (("nf", s.nf), ("nx", s.nx), ("nruns", s.nruns)):
            a = df[col].to_numpy()
            if np.any(np.diff(a) < 0):
                ex.violate("counters_monotone", "column %s decreases: %s" % (col, list(a)[:15]))
            if np.any(a > final):
                ex.violate("counters_bounded", "column %s exceeds the final soln.%s=%s: max %s" % (col, col, final, a.max()))
        npt = df["npt"].to_numpy()
        maxnpt = up.get("restarts.max_npt", cfg.get("npt", ex.n + 1)) if up.get("restarts.increase_npt") else cfg.get("npt", ex.n + 1)
        if np.any(npt < 2) or np.any(npt > maxnpt):
            ex.violate("npt_range", "npt column outside [2, %d]: %s" % (maxnpt, sorted(set(npt.tolist()))))
        for t in set(str(v) for v in df["iter_type"].tolist()):
            ex.tags.add("iter_type:" + t)
        if np.any(np.diff(nruns) > 0):
            ex.tags.add("table_spans_restart")
        if np.any(np.diff(rho) < 0):
            ex.tags.add("rho_reduced")
        if np.any(delta[1:] > delta[:-1]):
            ex.tags.add("delta_increased")
        if np.any((delta == rho) & (np.arange(len(df)) > 0)):
            ex.tags.add("delta_snapped_to_rho")


class _IterCounter(solvex.Monitor):
    """Counts main-loop iterations that reach the recording point (the fit succeeded): one row is expected for each."""

    def start(self, ex):
        ex.iters_with_diag = 0
        import dfols.diagnostic_info as D
        self.orig = D.DiagnosticInfo.save_info_from_control
        mon_self = self

        def wrapped(di, control, nruns, it, save_poisedness=True):
            ex.iters_with_diag += 1
            return mon_self.orig(di, control, nruns, it, save_poisedness=save_poisedness)
        D.DiagnosticInfo.save_info_from_control = wrapped

    def on_end(self, ex):
        import dfols.diagnostic_info as D
        D.DiagnosticInfo.save_info_from_control = self.orig


def monitors(cfg):
    return [_IterCounter(), DiagMonitor()]


def classify(cfg, clause, detail):
    return {"mode": cfg.get("tag_mode")}


def _mk(prob, mode, bounds, maxfun, salt):
    m = MODES[mode]
    prob = m.get("prob", prob)
    npt = m.get("npt", cfgs.DIM[prob] + 1)
    cfg = cfgs.base_cfg(prob, salt, npt=npt, rhobeg=0.3, rhoend=0.01, maxfun=maxfun, memo=m.get("memo", True), tag_mode=mode)
    if "far" in m:
        cfg["prob"] = {"f": "lin", "A": [[1.0, 0.0], [0.0, 1.0], [0.0, 0.0]], "b": [m["far"], -0.5 * m["far"], 1.0 + 0.1 * salt], "salt": salt}
        cfg["x0"] = list(m.get("x0", [0.0, 0.0]))
        if "rhobeg" in m:
            cfg["rhobeg"] = m["rhobeg"]
        else:
            cfg.pop("rhobeg")
            cfg.pop("rhoend")
        bounds = False
    if bounds and cfgs.DIM[prob] == 2:
        cfg.update(BOX)
    for k in ("nsamples", "noise_amp", "objfun_has_noise"):
        if k in m:
            cfg[k] = m[k]
    cfg["user_params"] = cfgs.user_params(npt, m.get("up", {}), DIAG)
    return cfg


def _configs(tier, salts):
    out = []
    for salt in salts:
        for mode in MODES:
            for prob in ("rosen", "nzr"):
                for bounds in (False, True):
                    for maxfun in (5, 20, 60, 200):
                        if salt != 0 and maxfun not in (20, 60):
                            continue
                        cfg = _mk(prob, mode, bounds, maxfun, salt)
                        depth = 0
                        if cfg.get("memo", True) and maxfun in (20, 60) and salt == 0 and (tier == "thorough" or (maxfun == 20 or not bounds)):
                            depth = 1
                        letters = LETTERS
                        if tier == "thorough" and salt == 0 and maxfun == 20 and prob == "nzr" and not bounds and mode in ("default", "soft", "hard", "growing"):
                            depth, letters = 2, ["x0.3", "x3", "x1e3"]
                        out.append((cfg, {"depth": depth, "letters": letters}))
        if salt == 0 or (tier == "thorough" and salt == 1):
            out += cfgs.linalg_fault_cfgs(salt, tier, extra_up=DIAG)     # radii and table across linear-algebra recoveries
        if salt == 0 or (tier == "thorough" and salt == 1):
            for name, cfg in cfgs.broad_cfgs(salt=salt, budgets=(12, 40, 90), extra_up=DIAG, reg_budgets=(8,), overlays=("avg", "soft")):
                depth = 1 if (tier == "thorough" and cfg.get("memo", True) and cfg["maxfun"] == 40 and "reg" not in cfg["broad_flags"]) else 0
                out.append((dict(cfg, tag_mode=cfg["tag_mode"]), {"depth": depth, "letters": ["x0.3", "x3", "x1e3"]}))
    return out


def run(report, tier, seed):
    salts = common.salts_for(tier, seed)
    cps = _configs(tier, salts)
    res = solvex.explore(report, MOD, cps, classify=classify)
    solvex.site_floor(report, res["tags"], exempt=SITE_EXEMPT)
    tags = res["tags"]
    cov = report.coverage
    its = sorted(t for t in tags if t.startswith("iter_type:"))
    need = ["table_spans_restart", "rho_reduced", "delta_increased", "delta_snapped_to_rho"]
    missing = [t for t in need if not tags.get(t)]
    if missing or len(its) < 7:
        raise common.HarnessError("C18 exploration is vacuous: missing %s; iteration types seen %s" % (missing, its))
    cov["rule"] = ("executions of dfols.solve with the diagnostic table on over mode x bounds x budget x problem (+ all single "
                   "answer deviations; pairs on four configurations in thorough); non-trivial = distinct outcomes; coverage of "
                   "the radius-update sites is reported by iteration type")
    cov["distinct_nontrivial"] = cov["distinct_outcomes"]
    cov["iteration_types"] = {t[10:]: tags[t] for t in its}
    cov["documented_columns"] = documented_columns()
    cov["salts"] = salts
    report.assumptions += ["column list parsed from docs/diagnostic.rst (xk, rk are optional by documentation)", "n<=3"]


def replay(rep):
    ex = solvex.replay(rep)
    return 1 if ex.viol else 0
