"""C07 - solve always returns a well-formed result; bad input is reported, not raised.

alphabet: (a) every key of the parameter list x value class {default, lower boundary, upper boundary, just below lower,
              just above upper, wrong type "abc", None, float-for-int, int-for-float, bool-for-number}; all PAIRS of invalid
              values on a 12-key subset (order of validation must not matter);
          (b) single and paired faults of the solve() arguments (radii, npt, maxfun, bound gap / lengths, regulariser
              without prox / lh, contradictory option pairs) x scaling on/off x projections on/off;
          (c) unknown keys; (d) audit of the EXIT_* constants named in docs/userguide.rst; (e) in-domain runs under the
              livelock watchdog (all valid value classes of (a) are complete solver runs).
oracle  : no exception except ValueError for an unknown key; flag in the documented set, non-empty message, str() works;
          input error => the recording wrapper saw zero calls and nf == 0; values that are invalid by an INDEPENDENT table
          written here from the wording of docs/advanced.rst (only unambiguous entries) => input-error flag.
"""
import os
import re
import itertools
import numpy as np

from .. import common, gridx, solvex, bank

LEVEL = "exploration"
MOD = "vf.props.C07"

# --------------------------------------------------------------------------------------------------------------------
# independent validity table (from the documentation's wording; 'amb' = the documentation does not settle it)
#   kind: bool | count (integer >= lo) | ratio01 (strictly between 0 and 1 is certainly valid; <0 or >1 certainly invalid)
#         | ge1 (factor >= 1) | nonneg (tolerance / threshold / level, negative certainly invalid)
# --------------------------------------------------------------------------------------------------------------------
TABLE = {
    "general.rounding_error_constant": ("nonneg",), "general.safety_step_thresh": ("nonneg",),
    "general.check_objfun_for_overflow": ("bool",),
    "init.random_initial_directions": ("bool",), "init.run_in_parallel": ("bool",), "init.random_directions_make_orthogonal": ("bool",),
    "interpolation.precondition": ("bool",), "interpolation.throw_error_on_nans": ("bool",),
    "logging.n_to_print_whole_x_vector": ("count", 0), "logging.save_diagnostic_info": ("bool",), "logging.save_poisedness": ("bool",),
    "logging.save_xk": ("bool",), "logging.save_rk": ("bool",),
    "tr_radius.eta1": ("ratio01",), "tr_radius.eta2": ("ratio01",), "tr_radius.gamma_dec": ("ratio01",),
    "tr_radius.gamma_inc": ("ge1",), "tr_radius.gamma_inc_overline": ("ge1",), "tr_radius.alpha1": ("ratio01",),
    "tr_radius.alpha2": ("ratio01",),
    "model.abs_tol": ("nonneg",), "model.rel_tol": ("nonneg",),
    "slow.history_for_slow": ("count", 0), "slow.thresh_for_slow": ("nonneg",), "slow.max_slow_iters": ("count", 0),
    "noise.quit_on_noise_level": ("bool",), "noise.scale_factor_for_quit": ("nonneg",),
    "noise.multiplicative_noise_level": ("nonneg",), "noise.additive_noise_level": ("nonneg",),
    "regression.num_extra_steps": ("count", 0), "regression.increase_num_extra_steps_with_restart": ("count", 0),
    "regression.momentum_extra_steps": ("bool",),
    "restarts.use_restarts": ("bool",), "restarts.max_unsuccessful_restarts": ("count", 0), "restarts.rhoend_scale": ("nonneg",),
    "restarts.use_soft_restarts": ("bool",), "restarts.soft.num_geom_steps": ("count", 0), "restarts.soft.move_xk": ("bool",),
    "restarts.soft.max_fake_successful_steps": ("count", 0), "restarts.hard.use_old_rk": ("bool",),
    "restarts.increase_npt": ("bool",), "restarts.increase_npt_amt": ("count", 0),
    "restarts.hard.increase_ndirs_initial_amt": ("count", 0), "restarts.max_npt": ("count", 0),
    "restarts.auto_detect": ("bool",), "restarts.auto_detect.history": ("count", 0),
    "restarts.auto_detect.min_chgJ_slope": ("nonneg",), "restarts.auto_detect.min_correl": ("nonneg",),
    "growing.ndirs_initial": ("count", 0), "growing.num_new_dirns_each_iter": ("count", 0),
    "growing.delta_scale_new_dirns": ("nonneg",), "growing.do_geom_steps": ("bool",), "growing.reset_delta": ("bool",),
    "growing.reset_rho": ("bool",), "growing.gamma_dec": ("ratio01",), "growing.safety.do_safety_step": ("bool",),
    "growing.safety.reduce_delta": ("bool",), "growing.safety.full_geom_step": ("bool",),
    "growing.full_rank.use_full_rank_interp": ("bool",), "growing.full_rank.scale_factor": ("nonneg",),
    "growing.full_rank.svd_scale_factor": ("nonneg",), "growing.full_rank.min_sing_val": ("nonneg",),
    "growing.full_rank.svd_max_jac_cond": ("nonneg",), "growing.perturb_trust_region_step": ("bool",),
    "dykstra.d_tol": ("nonneg",), "dykstra.max_iters": ("count", 0), "matrix_rank.r_tol": ("nonneg",),
    "func_tol.criticality_measure": ("nonneg",), "func_tol.tr_step": ("ratio01",), "func_tol.max_iters": ("count", 0),
    "sfista.max_iters_scaling": ("ge1",),
}

N, NPT, MAXFUN = 2, 3, 30


def verdict(key, value):
    """'invalid' | 'valid' | 'amb' according to the independent table."""
    kind = TABLE[key][0]
    if value is None:
        return "amb"          # None means "no override" for the parameter setter
    if isinstance(value, str):
        return "invalid"
    if kind == "bool":
        if isinstance(value, bool):
            return "valid"
        return "invalid" if isinstance(value, float) else "amb"     # 0/1 for a flag: not settled by the documentation
    if isinstance(value, bool):
        return "amb"          # Python makes True an int
    if kind == "count":
        if isinstance(value, float):
            return "invalid"
        return "invalid" if value < 0 else "amb"
    # float-valued kinds
    if isinstance(value, int):
        if kind == "ratio01" and (value < 0 or value > 1):
            return "invalid"
        if kind in ("nonneg", "ge1") and value < 0:
            return "invalid"
        return "amb"          # int-for-float
    if kind == "ratio01":
        return "invalid" if (value < 0.0 or value > 1.0) else ("valid" if 0.0 < value < 1.0 else "amb")
    if kind == "ge1":
        return "invalid" if value < 1.0 else "amb"
    if kind == "nonneg":
        return "invalid" if value < 0.0 else "amb"
    return "amb"


def value_classes(key, default):
    """(class name, value) pairs for one key.  Boundaries are taken from the implementation's own table so that the
    boundary values themselves get exercised; their validity is judged by `verdict`, not by the implementation."""
    import dfols.params as P
    pl = P.ParameterList(N, NPT, MAXFUN)
    type_str, none_ok, lower, upper = pl.param_type(key, NPT)
    out = [("default", default), ("str", "abc"), ("none", None)]
    if type_str == "bool":
        out += [("flip", (not default) if isinstance(default, bool) else True), ("float_for_bool", 0.5), ("int_for_bool", 1)]
        return out
    if type_str == "int":
        out += [("float_for_int", 2.5), ("bool_for_int", True)]
        if lower is not None:
            out += [("lower", lower), ("below_lower", lower - 1)]
        if upper is not None:
            out += [("upper", upper), ("above_upper", upper + 1)]
        out += [("negative", -3), ("large", 1000)]
        return out
    out += [("int_for_float", 1), ("bool_for_float", True), ("negative", -0.5), ("tiny", 1e-300), ("huge", 1e30)]
    if lower is not None:
        out += [("lower", float(lower)), ("below_lower", float(np.nextafter(float(lower), -np.inf)))]
    if upper is not None:
        out += [("upper", float(upper)), ("above_upper", float(np.nextafter(float(upper), np.inf)))]
    return out


PAIR_KEYS = ["tr_radius.eta1", "tr_radius.gamma_dec", "tr_radius.gamma_inc", "model.abs_tol", "slow.max_slow_iters",
             "restarts.max_unsuccessful_restarts", "restarts.use_restarts", "growing.ndirs_initial", "dykstra.max_iters",
             "logging.save_diagnostic_info", "noise.additive_noise_level", "sfista.max_iters_scaling"]
PAIR_BAD = {"tr_radius.eta1": -0.1, "tr_radius.gamma_dec": 1.5, "tr_radius.gamma_inc": 0.5, "model.abs_tol": -1.0,
            "slow.max_slow_iters": -1, "restarts.max_unsuccessful_restarts": 2.5, "restarts.use_restarts": "abc",
            "growing.ndirs_initial": -1, "dykstra.max_iters": "abc", "logging.save_diagnostic_info": 0.5,
            "noise.additive_noise_level": -2.0, "sfista.max_iters_scaling": 0.5}

ARG_FAULTS = {
    "rhobeg0": {"rhobeg": 0.0}, "rhobeg_neg": {"rhobeg": -0.1}, "rhoend0": {"rhoend": 0.0}, "rhoend_neg": {"rhoend": -1e-3},
    "rhobeg_eq_rhoend": {"rhobeg": 0.1, "rhoend": 0.1}, "rhobeg_lt_rhoend": {"rhobeg": 0.01, "rhoend": 0.1},
    "npt_small": {"npt": N}, "npt_zero": {"npt": 0}, "maxfun0": {"maxfun": 0}, "maxfun_neg": {"maxfun": -5},
    "gap": {"_bounds": "gap"}, "lo_len": {"_bounds": "lo_len"}, "hi_len": {"_bounds": "hi_len"},
    "h_noprox": {"_reg": "noprox"}, "h_nolh": {"_reg": "nolh"}, "lh0": {"_reg": "lh0"}, "lh_neg": {"_reg": "lh_neg"},
    "both_safety": {"_up": {"growing.safety.full_geom_step": True, "growing.safety.reduce_delta": True}},
    "both_growing": {"_up": {"growing.full_rank.use_full_rank_interp": True, "growing.perturb_trust_region_step": True}},
    "both_noise": {"_up": {"noise.quit_on_noise_level": True, "noise.additive_noise_level": 1.0, "noise.multiplicative_noise_level": 0.1}},
    "both_noise_zero_additive": {"_up": {"noise.quit_on_noise_level": True, "noise.additive_noise_level": 0.0, "noise.multiplicative_noise_level": 0.1}},
    "both_noise_zero_multiplicative": {"_up": {"noise.quit_on_noise_level": True, "noise.additive_noise_level": 0.5, "noise.multiplicative_noise_level": 0.0}},
    "both_noise_via_flag": {"_up": {"noise.additive_noise_level": 0.0, "noise.multiplicative_noise_level": 0.0}, "objfun_has_noise": True},
    "parallel_coord": {"_up": {"init.run_in_parallel": True}},
    "reset_rho_only": {"_up": {"growing.reset_rho": True}},
    "bad_param": {"_up": {"tr_radius.eta1": -0.1}},
}


def cases(tier, salts):
    import dfols.params as P
    pl = P.ParameterList(N, NPT, MAXFUN)
    keys = sorted(pl.params.keys())
    missing = [k for k in keys if k not in TABLE]
    if missing:
        raise common.HarnessError("parameter keys without an entry in the independent table: %s" % missing)
    out = []
    for key in keys:
        for cname, val in value_classes(key, pl.params[key]):
            for ctx in ("plain", "noise", "proj", "reg", "under"):
                if ctx != "plain" and cname in ("str", "none", "float_for_int", "int_for_float", "bool_for_int", "bool_for_float",
                                                "float_for_bool", "int_for_bool", "default") and not (ctx == "under" and cname == "default"):
                    continue
                # underdetermined problem (fewer residuals than variables: solve() switches the growing-phase defaults itself)
                if ctx == "under" and not key.startswith(("growing", "init", "interpolation", "general", "restarts.hard", "restarts.increase")):
                    continue
                if ctx == "proj" and not key.startswith(("dykstra", "matrix_rank", "init", "growing", "general")):
                    continue
                if ctx == "reg" and not key.startswith(("func_tol", "sfista", "dykstra", "general")):
                    continue
                if ctx == "noise" and not key.startswith(("noise", "restarts", "tr_radius", "slow", "regression")):
                    continue
                out.append({"k": "param", "key": key, "cls": cname, "val": val, "ctx": ctx})
    for k1, k2 in itertools.permutations(PAIR_KEYS, 2):
        out.append({"k": "pair", "keys": [k1, k2]})
    names = sorted(ARG_FAULTS)
    for f in names:
        for sc in (False, True):
            for pr in (False, True):
                out.append({"k": "arg", "faults": [f], "scaling": sc, "proj": pr})
    for f1, f2 in itertools.combinations(names, 2):
        a, b = ARG_FAULTS[f1], ARG_FAULTS[f2]
        if set(a) & set(b) - {"_up"}:
            continue
        if "_up" in a and "_up" in b and set(a["_up"]) & set(b["_up"]):
            continue
        for sc in (False, True):
            for pr in ((False, True) if tier == "thorough" else (False,)):
                out.append({"k": "arg", "faults": [f1, f2], "scaling": sc, "proj": pr})
    # the bound-gap requirement lives in the coordinates the solver works in: with internal scaling the box is the unit box
    out.append({"k": "scaledgap", "what": "too_large_rhobeg", "rhobeg": 0.6, "width": [10.0, 10.0], "expect_error": True})
    out.append({"k": "scaledgap", "what": "boundary_rhobeg", "rhobeg": 0.4, "width": [10.0, 10.0], "expect_error": False})
    out.append({"k": "scaledgap", "what": "narrow_raw_box", "rhobeg": None, "width": [0.1, 3.0], "expect_error": False})
    out.append({"k": "scaledgap", "what": "narrow_raw_box_rhobeg", "rhobeg": 0.3, "width": [0.05, 0.07], "expect_error": False})
    for key in ("tr_radius.eta3", "", "model.abs_tol ", "MODEL.ABS_TOL", "restarts", 7):
        out.append({"k": "unknown", "key": key})
    out.append({"k": "audit"})
    return out


def documented_exit_names():
    path = os.path.join(common.REPO, "docs", "userguide.rst")
    names = []
    with open(path) as f:
        for line in f:
            m = re.match(r"\* :code:`soln\.(EXIT_\w+)`", line)
            if m:
                names.append(m.group(1))
    return names


def _documented_flags():
    import dfols.controller as C
    return sorted(getattr(C, nm) for nm in documented_exit_names() if hasattr(C, nm))


def _solve(kw_over, up=None, ctx="plain", scaling=False, proj=False, bounds=None, reg=None):
    """Run dfols.solve on the standard small problem under a recording wrapper; returns (outcome, soln/exc, ncalls)."""
    import dfols
    calls = []

    def objfun(x):
        calls.append(np.array(x, copy=True))
        return np.array([10.0 * (x[1] - x[0] ** 2), 1.0 - x[0]])
    x0 = np.array([-1.2, 1.0])
    kw = {"npt": NPT, "rhobeg": 0.1, "rhoend": 1e-4, "maxfun": MAXFUN, "do_logging": False}
    if ctx == "under":
        def objfun(x):     # noqa: F811  (two residuals, three variables)
            calls.append(np.array(x, copy=True))
            return np.array([x[0] + 2.0 * x[1] - x[2] - 1.0, x[0] * x[1] + 0.5 * x[2] - 0.5])
        x0 = np.array([0.5, -0.5, 1.0])
        kw["npt"] = 4
    if ctx == "noise":
        kw["objfun_has_noise"] = True
    if bounds is None and (scaling or ctx == "bounds"):
        bounds = (np.array([-2.0, -1.0]), np.array([1.5, 2.0]))
    if bounds is not None:
        kw["bounds"] = bounds
    if scaling:
        kw["scaling_within_bounds"] = True
    if proj or ctx == "proj":
        st = bank.CSet({"t": "ball", "c": [0.0, 0.5], "r": 2.5})
        kw["projections"] = [st.proj]
    if ctx == "reg" and reg is None:
        reg = "ok"
    if reg is not None:
        h, prox, lh, _, _, _ = bank.make_reg({"r": "l1", "lam": 0.05}, N)
        kw.update(h=h, prox_uh=prox, lh=lh)
        kw["maxfun"] = min(kw["maxfun"], 8)
        if reg == "noprox":
            kw["prox_uh"] = None
        elif reg == "nolh":
            kw["lh"] = None
        elif reg == "lh0":
            kw["lh"] = 0.0
        elif reg == "lh_neg":
            kw["lh"] = -1.0
    if up is not None:
        kw["user_params"] = up
    kw.update(kw_over)
    ex = solvex.Execution({"prob": {"f": "rosen", "salt": 0}, "x0": x0.tolist()})   # only for its watchdog/timeout machinery
    solvex.install()
    import signal

    def on_alarm(signum, frame):
        raise solvex.Timeout("execution exceeded 120 s of CPU time")
    old = signal.signal(signal.SIGPROF, on_alarm)
    signal.setitimer(signal.ITIMER_PROF, 120.0)
    solvex.CUR = ex
    try:
        try:
            soln = dfols.solve(objfun, x0, **kw)
            return "returned", soln, len(calls)
        except solvex.Abort as e:
            return "livelock", e, len(calls)
        except Exception as e:  # noqa: BLE001
            return "raised", e, len(calls)
    finally:
        solvex.CUR = None
        signal.setitimer(signal.ITIMER_PROF, 0)
        signal.signal(signal.SIGPROF, old)


def _wellformed(soln, ncalls, v, what):
    flags = _documented_flags()
    if soln.flag not in flags:
        v.append(("documented_flag", "%s: flag %r is not one of the exit codes named in the user guide %s (message %r)" % (what, soln.flag, flags, soln.msg)))
    if not isinstance(soln.msg, str) or not soln.msg.strip():
        v.append(("message", "%s: empty message for flag %r" % (what, soln.flag)))
    try:
        s = str(soln)
        if not s.strip():
            v.append(("prints", "%s: str(result) is empty" % what))
    except Exception as e:  # noqa: BLE001
        v.append(("prints", "%s: str(result) raised %s: %s" % (what, type(e).__name__, e)))
    if soln.flag == -1:
        if ncalls != 0 or soln.nf != 0:
            v.append(("input_error_zero_evals", "%s: input error reported after %d evaluation(s) (nf=%r)" % (what, ncalls, soln.nf)))
    for nm in documented_exit_names():
        if not hasattr(soln, nm):
            v.append(("exit_constants", "%s: result object lacks the documented constant %s" % (what, nm)))
            break


def check_case(case):
    v = []
    tags = ["kind:" + case["k"]]
    if case["k"] == "param":
        key, val = case["key"], case["val"]
        vd = verdict(key, val)
        what = "user_params={%r: %r} [%s]" % (key, val, case["ctx"])
        out, res, ncalls = _solve({}, up={key: val}, ctx=case["ctx"])
        tags.append("verdict:" + vd)
        if out != "returned":
            v.append(("no_exception" if out == "raised" else "terminates",
                      "%s: solve %s %s: %s" % (what, out, type(res).__name__, str(res)[:200])))
            return v, tags
        _wellformed(res, ncalls, v, what)
        if vd == "invalid" and res.flag != -1:
            v.append(("invalid_rejected", "%s is invalid by the documentation but solve ran (flag %r, %s)" % (what, res.flag, res.msg)))
        # a flag flipped on its own can contradict another option's default (that is a correct input error), so
        # 'valid => accepted' is asserted for default values and for numeric parameters only
        if vd == "valid" and res.flag == -1 and (case["cls"] == "default" or TABLE[key][0] != "bool"):
            v.append(("valid_accepted", "%s is valid by the documentation but was rejected: %s" % (what, res.msg)))
        tags.append("input_error" if res.flag == -1 else "ran")
        return v, tags
    if case["k"] == "pair":
        k1, k2 = case["keys"]
        up = {}
        up[k1] = PAIR_BAD[k1]
        up[k2] = PAIR_BAD[k2]
        what = "user_params=%r" % (up,)
        out, res, ncalls = _solve({}, up=up)
        if out != "returned":
            return [("no_exception", "%s: solve %s %s: %s" % (what, out, type(res).__name__, str(res)[:200]))], tags
        _wellformed(res, ncalls, v, what)
        if res.flag != -1:
            v.append(("invalid_rejected", "%s: two invalid values but solve ran (flag %r)" % (what, res.flag)))
        elif not (k1 in res.msg and k2 in res.msg):
            v.append(("all_bad_keys_reported", "%s: message does not name both offending keys: %r" % (what, res.msg)))
        tags.append("input_error")
        return v, tags
    if case["k"] == "arg":
        kw = {}
        up = {}
        bounds = None
        reg = None
        for f in case["faults"]:
            spec = ARG_FAULTS[f]
            for a, b in spec.items():
                if a == "_up":
                    up.update(b)
                elif a == "_bounds":
                    if b == "gap":
                        bounds = (np.array([-2.0, 0.95]), np.array([1.5, 1.1]))       # gap 0.15 < 2*rhobeg = 0.2
                    elif b == "lo_len":
                        bounds = (np.array([-2.0, -1.0, -3.0]), np.array([1.5, 2.0]))
                    else:
                        bounds = (np.array([-2.0, -1.0]), np.array([1.5]))
                elif a == "_reg":
                    reg = b
                else:
                    kw[a] = b
        what = "faults=%s scaling=%s projections=%s" % (case["faults"], case["scaling"], case["proj"])
        out, res, ncalls = _solve(kw, up=up or None, scaling=case["scaling"], proj=case["proj"], bounds=bounds, reg=reg)
        if out != "returned":
            return [("no_exception", "%s: solve %s %s: %s" % (what, out, type(res).__name__, str(res)[:200]))], tags
        _wellformed(res, ncalls, v, what)
        # the bound-gap requirement is stated for rhobeg in the coordinates the solver works in: with internal scaling
        # the box is the unit box, and with projections the bounds become one more projection - not a fault there
        only_gap = case["faults"] == ["gap"] and (case["scaling"] or case["proj"])
        if res.flag != -1 and not only_gap:
            v.append(("invalid_rejected", "%s: invalid arguments but solve ran (flag %r, %s)" % (what, res.flag, res.msg)))
        tags.append("input_error" if res.flag == -1 else "ran")
        tags.append("nfaults=%d" % len(case["faults"]))
        return v, tags
    if case["k"] == "scaledgap":
        w = np.array(case["width"])
        lo = np.array([-1.2, 1.0]) - 0.4 * w
        kw = {} if case["rhobeg"] is None else {"rhobeg": case["rhobeg"], "rhoend": 1e-4}
        what = "scaling_within_bounds with box widths %s and rhobeg=%s" % (case["width"], case["rhobeg"])
        out, res, ncalls = _solve(kw, scaling=True, bounds=(lo, lo + w))
        if out != "returned":
            return [("no_exception", "%s: solve %s %s: %s" % (what, out, type(res).__name__, str(res)[:200]))], tags
        _wellformed(res, ncalls, v, what)
        if case["expect_error"] and res.flag != -1:
            v.append(("invalid_rejected", "%s: the scaled gap (1.0) is below 2*rhobeg but solve ran (flag %r)" % (what, res.flag)))
        if not case["expect_error"] and res.flag == -1:
            v.append(("valid_accepted", "%s is valid (rhobeg refers to the scaled variables) but was rejected: %s" % (what, res.msg)))
        tags.append("input_error" if res.flag == -1 else "ran")
        return v, tags
    if case["k"] == "unknown":
        out, res, ncalls = _solve({}, up={case["key"]: 1.0})
        if not (out == "raised" and type(res) is ValueError):
            v.append(("unknown_key", "unknown parameter name %r: expected ValueError, got %s %s" % (
                case["key"], out, type(res).__name__ if out != "returned" else "flag %r" % res.flag)))
        elif ncalls:
            v.append(("unknown_key", "unknown parameter name %r: %d evaluations before the ValueError" % (case["key"], ncalls)))
        tags.append("unknown_key_raises")
        return v, tags
    # audit
    import dfols.controller as C
    names = documented_exit_names()
    if len(names) < 5:
        raise common.HarnessError("could not parse the exit-code list from docs/userguide.rst")
    out, res, ncalls = _solve({})
    out2, res2, _ = _solve({"rhobeg": -1.0})
    for nm in names:
        if not hasattr(C, nm):
            v.append(("exit_constants", "documented constant %s does not exist in the package" % nm))
        for which, r in (("normal", res), ("input-error", res2)):
            if out == "returned" and out2 == "returned" and not hasattr(r, nm):
                v.append(("exit_constants", "%s result object lacks the documented constant %s" % (which, nm)))
            elif hasattr(r, nm) and hasattr(C, nm) and getattr(r, nm) != getattr(C, nm):
                v.append(("exit_constants", "result.%s = %r differs from the package constant %r" % (nm, getattr(r, nm), getattr(C, nm))))
    vals = [getattr(C, nm) for nm in names if hasattr(C, nm)]
    if len(set(vals)) != len(vals):
        v.append(("exit_constants", "documented exit codes are not distinct: %s" % vals))
    tags.append("audit")
    return v, tags


def classify(case, clause, detail):
    return {"kind": case["k"], "ctx": case.get("ctx"), "proj": bool(case.get("proj")) or case.get("ctx") == "proj",
            "key": case.get("key"),
            "init_dirs_runtimeerror": "RuntimeError: Unable to generate suitable initial directions" in detail}


# (e) in-domain solver configurations that must return a result object (documented limitation recorded as known finding)
def _indomain(report):
    from .. import cfgs
    n = 0
    cases_ = []
    sets = [{"t": "ball", "c": [0.0, 0.5], "r": 2.5}]
    for npt in (3, 4, 5):
        for nd in (None, 1):
            for prob in ("rosen", "nzr"):
                cfg = cfgs.base_cfg(prob, 0, npt=npt, maxfun=25, sets=sets, memo=True)
                if nd is not None:
                    cfg["user_params"] = {"growing.ndirs_initial": nd}
                cases_.append(cfg)
    # constant and piecewise-constant objectives (flat models) with and without constraints
    for c in cases_:
        ex = solvex.Execution(c).run()
        n += 1
        if ex.outcome != "returned":
            report.add_violation("returns_in_domain", "projections with npt=%d, ndirs_initial=%s: solve %s %s: %s" % (
                c["npt"], (c.get("user_params") or {}).get("growing.ndirs_initial"), ex.outcome, type(ex.exc).__name__, ex.exc),
                {"engine": "solvex", "module": "C03", "cfg": c, "devs": []},
                {"kind": "indomain", "proj": True, "npt_ne_n1_or_reduced_init": c["npt"] != 3 or bool(c.get("user_params")),
                 "init_dirs_runtimeerror": isinstance(ex.exc, RuntimeError) and "Unable to generate suitable initial directions" in str(ex.exc)})
    return n


def _budget_task(task):
    from . import C20
    mode, prob, budgets = task
    out = []
    for maxfun in budgets:
        cfg = C20._mk(prob, mode, maxfun, 0)
        ex = solvex.Execution(cfg).run()
        v = []
        flag = None
        if ex.outcome != "returned":
            v.append(("returns_in_domain", "%s maxfun=%d: solve %s %s: %s" % (mode, maxfun, ex.outcome, type(ex.exc).__name__, ex.exc)))
        else:
            _wellformed(ex.soln, len(ex.calls), v, "%s/%s maxfun=%d" % (mode, prob, maxfun))
            flag = int(ex.soln.flag)
        out.append((cfg, v, flag))
    return out


def _every_budget(report, tier):
    """(e) continued: complete solver runs for every budget in configurations that reach the rarer exit sites (auto-detected
    restarts with hard restarts, slow-progress and false-success exits); the result must be well formed every time."""
    n = 0
    flags = {}
    top = 81 if tier == "quick" else 161
    tasks = [(mode, prob, list(range(lo, min(lo + 10, top))))
             for mode in ("noise_autodetect", "slow", "fake", "hard_mu0", "boxball_diag") for prob in ("rosen", "nzr")
             for lo in range(1, top, 10)]
    for res in common.pool_map(_budget_task, tasks):
        for cfg, v, flag in res:
            n += 1
            if flag is not None:
                flags[flag] = flags.get(flag, 0) + 1
            for clause, detail in v:
                report.add_violation(clause, detail, {"engine": "solvex", "module": "C20", "cfg": cfg, "devs": []},
                                     {"kind": "every_budget", "mode": cfg.get("tag_mode")})
    return n, flags


def run(report, tier, seed):
    cs = cases(tier, [0])
    tags = gridx.run_grid(report, MOD, cs, classify=classify, chunk=25)
    nin = _indomain(report)
    nb, bflags = _every_budget(report, tier)
    cov = report.coverage
    cov["evaluations"] += nin + nb
    cov["every_budget_runs"] = nb
    cov["every_budget_flags"] = {str(k): v for k, v in sorted(bflags.items())}
    if len(bflags) < 4:
        raise common.HarnessError("C07 every-budget sweep is vacuous: flags %s" % bflags)
    need = ["kind:param", "kind:pair", "kind:arg", "kind:unknown", "kind:audit", "verdict:invalid", "verdict:valid", "verdict:amb",
            "input_error", "ran", "nfaults=2"]
    missing = [t for t in need if not tags.get(t)]
    if missing:
        raise common.HarnessError("C07 grid is vacuous: %s never occurred" % missing)
    kinds = {}
    for c in cs:
        kinds[c["k"]] = kinds.get(c["k"], 0) + 1
    cov["cases_by_kind"] = kinds
    cov["in_domain_projection_configs"] = nin
    cov["documented_exit_constants"] = documented_exit_names()
    cov["rule"] = ("one solve per (parameter key, value class[, context]); all ordered pairs of invalid values on 12 keys; all "
                   "single and compatible paired argument faults x scaling x projections; unknown keys; constant audit; "
                   "non-trivial = cases ending in an input-error result")
    cov["distinct_nontrivial"] = int(tags.get("input_error", 0))
    cov["salts"] = [0]
    report.assumptions += ["validity is judged by a table written in the harness from docs/advanced.rst; ambiguous values "
                           "(None, int-for-float, bool-for-int, boundary values 0/1 of ratios) may be accepted or rejected, "
                           "but must never raise", "the seed has no influence on this check (no data bank)"]


def replay(rep):
    if rep.get("engine") == "solvex":
        ex = solvex.replay(rep)
        v = []
        if ex.outcome == "returned":
            _wellformed(ex.soln, len(ex.calls), v, "replay")
            for c, d in v:
                print("  VIOLATED clause=%s: %s" % (c, d))
        return 1 if (ex.outcome != "returned" or v) else 0
    v = gridx.replay_case(MOD, rep["case"])
    return 1 if v else 0
