"""C15 - Dykstra's projection is feasible, near-optimal and respects its stopping rule.

alphabet: every ordered selection of <=3 (thorough <=4) sets from a bank of three balls, four half-spaces (two nearly
          parallel) and two boxes with a common point x starts {inside, near, far, very far, the projection of 'far' pushed outwards by 1e-12 and by
          0.3*sqrt(tol)} x tolerances x sweep caps x n
oracle  : sweeps counted through a wrapped projector; distance functions of the sets; the true projection is computed
          independently (long reference iteration polished by SLSQP) and *certified* by a KKT / non-negative least-squares
          check, so the reference itself is not trusted blindly.
"""
import itertools
import numpy as np

from .. import common, gridx, bank

LEVEL = "exploration"
MOD = "vf.props.C15"

TOLS = [1e-10, 1e-8, 1e-6, 1e-4]
STARTS = ["inside", "near", "far", "veryfar", "hair_ulp", "hair_tol"]


OFFSET = [300.0, 400.0, -200.0, 150.0, -350.0, 250.0]


def translate(spec, off):
    spec = dict(spec)
    off = np.array(off, dtype=float)
    if spec["t"] == "ball":
        spec["c"] = (np.array(spec["c"]) + off).tolist()
    elif spec["t"] == "half":
        spec["b"] = float(spec["b"] + np.dot(spec["a"], off))
    else:
        spec["l"] = (np.array(spec["l"]) + off).tolist()
        spec["u"] = (np.array(spec["u"]) + off).tolist()
    return spec


def set_bank(n, salt=0, off=0):
    """off=1: the same geometry translated far away from the origin (everything the routine does is translation
    invariant, so every clause must hold there too)."""
    if off:
        return [translate(sp, OFFSET[:n]) for sp in set_bank(n, salt, 0)]
    e = 0.003 * salt

    def vec(*first):
        v = np.zeros(n)
        for i, t in enumerate(first[:n]):
            v[i] = t
        return v.tolist()
    a1 = vec(1.0, 1.0)
    a2 = vec(1.0, 1.01)
    a4 = vec(-0.5)
    a4[n - 1] += 1.0
    return [
        {"t": "ball", "c": vec(0.0), "r": 1.0 + e},
        {"t": "ball", "c": vec(0.8), "r": 1.0},
        {"t": "ball", "c": vec(-0.3, 0.4), "r": 0.7 + e},
        {"t": "half", "a": a1, "b": 0.5},
        {"t": "half", "a": a2, "b": 0.5 + e},
        {"t": "half", "a": vec(-1.0), "b": 0.2},
        {"t": "half", "a": a4, "b": 0.3},
        {"t": "box", "l": [-0.5] * n, "u": [0.6 + e] * n},
        {"t": "box", "l": [-0.05] + [-2.0] * (n - 1), "u": [2.0] * n},
    ]


def start_point(name, n, salt=0, off=0):
    if off:
        return start_point(name, n, salt, 0) + np.array(OFFSET[:n])
    e = 0.01 * salt
    if name == "inside":
        return np.full(n, 0.1)
    if name == "near":
        return np.array([0.7 + e, 0.7, -0.6, 0.5, 0.9, -0.8][:n])
    if name == "far":
        return np.array([3.0, -2.0 + e, 1.5, -4.0, 2.5, 3.5][:n])
    return np.array([1.0e3, 7.0e2 + e, -1.2e3, 5.0e2, -3.0e2, 9.0e2][:n])


def cases(tier, salts):
    out = []
    ns = [1, 2, 3, 6] if tier == "quick" else [1, 2, 3, 4, 5, 6]
    for salt in salts:
        for n in ns:
            nb = len(set_bank(n))
            maxsel = 3 if (tier == "quick" or n > 3) else 4
            if n > 3:
                maxsel = 2
            sels = []
            for L in range(1, maxsel + 1):
                sels += list(itertools.permutations(range(nb), L))
            if tier == "quick" and salt != 0:
                sels = [s for s in sels if len(s) <= 2]
            if tier == "thorough" and salt != 0:
                sels = [s for s in sels if len(s) <= 3]
            if L == 4:
                pass
            for sel in sels:
                if len(sel) == 4 and (salt != 0 or n != 2):
                    continue
                for st in STARTS:
                    # boundary values a user can pass: tolerance exactly zero (the rule can then never be met: the routine must run
                    # to its cap) and a cap of one sweep.  (A cap of zero sweeps is outside the property: "exactly in the last
                    # box" and "at most max_iter sweeps" cannot both hold for an infeasible start.)
                    if len(sel) <= 2 and st in ("near", "far", "hair_tol"):
                        for tol0, mi0 in ((0.0, 100), (0.0, 5), (1e-10, 1)):
                            out.append({"n": n, "sel": list(sel), "start": st, "tol": tol0, "max_iter": mi0, "salt": salt})
                    # projectors that overwrite their argument and return it (wave j: the routine may hand a projector only a
                    # private temporary that it never reads again)
                    if len(sel) <= 2 and st in ("near", "far") and (salt == 0 or tier == "thorough"):
                        out.append({"n": n, "sel": list(sel), "start": st, "tol": 1e-10, "max_iter": 100, "salt": salt, "style": "inplace"})
                    for tol in TOLS:
                        for mi in ([100] if len(sel) > 2 and tier == "quick" else [100, 5, 1000]):
                            if mi != 100 and tol not in (1e-10, 1e-6):
                                continue
                            out.append({"n": n, "sel": list(sel), "start": st, "tol": tol, "max_iter": mi, "salt": salt})
                            if mi == 100 and tol in (1e-10, 1e-6) and (len(sel) <= 2 or tier == "thorough" or sel[0] < 3):
                                out.append({"n": n, "sel": list(sel), "start": st, "tol": tol, "max_iter": mi, "salt": salt, "off": 1})
    out.sort(key=lambda c: (c["n"], c["salt"], c.get("off", 0), sorted(c["sel"]), c["start"]))
    return out


_REF = {}


def reference_projection(n, salt, sel, start, off=0):
    """True projection of the start point onto the intersection (order-independent), with a KKT certificate."""
    if off:   # computed near the origin (where it is accurate) and translated
        ref, cert = reference_projection(n, salt, sel, start, 0)
        return ref + np.array(OFFSET[:n]), cert
    key = (n, salt, tuple(sorted(set(sel))), start)
    if key in _REF:
        return _REF[key]
    from scipy.optimize import minimize, nnls
    specs = set_bank(n, salt)
    sets = [bank.CSet(specs[i]) for i in sorted(set(sel))]
    x0 = start_point(start, n, salt)
    # long independent Dykstra iteration
    x = x0.copy()
    y = [np.zeros(n) for _ in sets]
    for sweep in range(20000):
        ch = 0.0
        for i, s in enumerate(sets):
            z = x - y[i]
            xn = s.proj(z)
            yn = xn - z
            ch += float(np.dot(yn - y[i], yn - y[i]))
            y[i] = yn
            x = xn
        if ch < 1e-30:
            break
    # polish with SLSQP on the smooth formulation
    cons = []
    bnds = [(None, None)] * n
    for s in sets:
        if s.t == "ball":
            cons.append({"type": "ineq", "fun": (lambda z, s=s: s.r ** 2 - np.dot(z - s.c, z - s.c)),
                         "jac": (lambda z, s=s: -2.0 * (z - s.c))})
        elif s.t == "half":
            cons.append({"type": "ineq", "fun": (lambda z, s=s: s.b - s.a.dot(z)), "jac": (lambda z, s=s: -s.a)})
        else:
            for j in range(n):
                cons.append({"type": "ineq", "fun": (lambda z, s=s, j=j: z[j] - s.l[j]), "jac": (lambda z, j=j: np.eye(n)[j])})
                cons.append({"type": "ineq", "fun": (lambda z, s=s, j=j: s.u[j] - z[j]), "jac": (lambda z, j=j: -np.eye(n)[j])})
    try:
        res = minimize(lambda z: 0.5 * np.dot(z - x0, z - x0), x, jac=lambda z: z - x0, constraints=cons, method="SLSQP",
                       options={"ftol": 1e-15, "maxiter": 300})
        cand = [x, res.x]
    except Exception:  # noqa: BLE001
        cand = [x]
    best = None
    for z in cand:
        feas = max([s.dist(z) for s in sets] + [0.0])
        # KKT certificate: x0 - z = sum lambda_i * outward normal_i over (nearly) active constraints, lambda >= 0
        normals = []
        scale = max(1.0, float(np.linalg.norm(x0 - z)))
        for s in sets:
            if s.t == "ball":
                if np.linalg.norm(z - s.c) >= s.r - 1e-7:
                    normals.append((z - s.c) / max(np.linalg.norm(z - s.c), 1e-300))
            elif s.t == "half":
                if s.a.dot(z) >= s.b - 1e-7 * np.linalg.norm(s.a):
                    normals.append(s.a / np.linalg.norm(s.a))
            else:
                for j in range(n):
                    if z[j] <= s.l[j] + 1e-7:
                        normals.append(-np.eye(n)[j])
                    if z[j] >= s.u[j] - 1e-7:
                        normals.append(np.eye(n)[j])
        rhs = x0 - z
        if normals:
            lam, rn = nnls(np.array(normals).T, rhs)
        else:
            rn = float(np.linalg.norm(rhs))
        cert = max(feas, rn / scale)
        if best is None or cert < best[1]:
            best = (z.copy(), cert)
    _REF[key] = best
    return best


def check_case(case):
    from dfols.util import dykstra
    n, salt = case["n"], case["salt"]
    off = case.get("off", 0)
    specs = set_bank(n, salt, off)
    sets = [bank.CSet(specs[i]) for i in case["sel"]]
    p = len(sets)
    hair = case["start"].startswith("hair")
    if hair:
        # the certified projection of the 'far' start, pushed back outwards (along far - projection, i.e. inside the normal
        # cone, so its own projection is the same point) by a hair: 1e-12, or 0.3*sqrt(tol) so that a whole first sweep
        # moves the point by less than the stopping threshold
        ref0, cert0 = reference_projection(n, salt, case["sel"], "far", off)
        far = start_point("far", n, salt, off)
        u = far - ref0
        nu = float(np.linalg.norm(u))
        if cert0 > 1e-7 or nu < 1e-6:
            return [], ["hair_not_available"]
        x0 = ref0 + (1e-12 * max(1.0, float(np.max(np.abs(ref0)))) if case["start"] == "hair_ulp" else 0.3 * np.sqrt(case["tol"])) * u / nu
    else:
        x0 = start_point(case["start"], n, salt, off)
    common_pt = np.full(n, 0.1) + (np.array(OFFSET[:n]) if off else 0.0)
    for s in sets:
        if s.dist(common_pt) > 0:
            raise common.HarnessError("bank set %s does not contain the common point" % (s.spec,))
    x0c = x0.copy()
    out = dykstra([(s.proj_inplace if case.get("style") == "inplace" else s.proj) for s in sets], x0, max_iter=case["max_iter"], tol=case["tol"])
    v = []
    tags = []
    if not np.array_equal(x0, x0c):
        v.append(("input_modified", "dykstra modified its starting point"))
    sweeps = sets[0].ncalls
    if any(s.ncalls != sweeps for s in sets if s is not sets[0]) and len(set(case["sel"])) == len(case["sel"]):
        v.append(("sweeps", "projectors were not called equally often: %s" % [s.ncalls for s in sets]))
    if sweeps > case["max_iter"]:
        v.append(("max_iter", "%d sweeps performed, max_iter=%d" % (sweeps, case["max_iter"])))
    if not np.all(np.isfinite(out)):
        return v + [("finite", "result not finite")], tags
    stopped = sweeps < case["max_iter"]
    tags.append("stopped_by_rule" if stopped else "hit_cap")
    dists = [s.dist(out) for s in sets]
    if stopped:
        bound = np.sqrt(p * case["tol"])
        if max(dists) > bound * (1 + 1e-9):
            v.append(("feasibility", "stopped by its rule after %d sweeps but lies %.3g from a set (bound sqrt(p*tol)=%.3g)" % (
                sweeps, max(dists), bound)))
        if max(dists) > 0:
            tags.append("inexact_feasible")
    if sets[-1].t == "box" and not sets[-1].inside_exact(out):
        v.append(("last_box_exact", "last set is a box but the result %s is outside it" % out.tolist()))
    if all(s.dist(x0) == 0.0 for s in sets):
        tags.append("start_inside")
        if np.max(np.abs(out - x0)) > 1e-15 * max(1.0, float(np.max(np.abs(x0)))):
            v.append(("fixed_point", "start already in all sets but moved by %.3g" % float(np.max(np.abs(out - x0)))))
    elif case["max_iter"] >= 100 and not stopped and 0.0 < case["tol"] <= 1e-8:
        tags.append("optimality_eligible_but_capped")
    elif stopped:
        ref, cert = reference_projection(n, salt, case["sel"], "far" if hair else case["start"], off)
        if cert <= 1e-7:
            tags.append("optimality_checked")
            err = float(np.linalg.norm(out - ref))
            if err > 1e-3:
                # The stopping quantity bounds feasibility, not the distance to the projection.  Two situations in which
                # the (correct) iteration stops early are recorded as known findings under their own clauses, so that
                # a violation anywhere else is still reported: a user tolerance looser than 1e-8, and a selection that
                # contains both nearly parallel half-spaces of the bank (linear convergence rate ~ 1 - 2.5e-5).
                pair = 3 in case["sel"] and 4 in case["sel"]
                clause = "near_optimal_loose_tol" if case["tol"] > 1e-8 else ("near_optimal_nearly_parallel" if pair else "near_optimal")
                v.append((clause, "stopped by its rule (tol=%g, %d sweeps) %.3g from the certified projection %s (cert %.1e)" % (
                    case["tol"], sweeps, err, ref.tolist(), cert)))
        else:
            tags.append("reference_uncertified")
    if sweeps > 3:
        tags.append("many_sweeps")
    if off:
        tags.append("translated")
    if hair:
        tags.append("hair_start")
        if any(s.dist(x0) > 0 for s in sets):
            tags.append("hair_start_infeasible")
    return v, tags


def classify(case, clause, detail):
    return {"n": case["n"]}


def run(report, tier, seed):
    salts = common.salts_for(tier, seed)
    cs = cases(tier, salts)
    tags = gridx.run_grid(report, MOD, cs, classify=classify, chunk=96)
    cov = report.coverage
    need = ["stopped_by_rule", "hit_cap", "start_inside", "optimality_checked", "inexact_feasible", "many_sweeps", "hair_start_infeasible"]
    missing = [t for t in need if not tags.get(t)]
    if missing:
        raise common.HarnessError("C15 grid is vacuous: %s never occurred" % missing)
    if tags.get("reference_uncertified", 0) > 0.2 * tags.get("optimality_checked", 1):
        raise common.HarnessError("C15: too many uncertified references (%d vs %d checked)" % (
            tags.get("reference_uncertified", 0), tags.get("optimality_checked", 0)))
    capped = tags.get("optimality_eligible_but_capped", 0)
    cov["optimality_eligible_but_hit_cap"] = capped
    if capped > 0.4 * (capped + tags.get("optimality_checked", 0)):
        raise common.HarnessError("C15: the routine hit its sweep cap (max_iter>=100) on %d of %d cases eligible for the "
                                  "optimality clause - the clause would be checked on too few cases to mean anything" % (
                                      capped, capped + tags.get("optimality_checked", 0)))
    cov["rule"] = ("all ordered selections of sets x starts x tolerances x sweep caps x n; non-trivial = cases needing more "
                   "than 3 sweeps; optimality asserted only against KKT-certified references and only for tol <= 1e-8 "
                   "(DESIGN.md 4 C15)")
    cov["distinct_nontrivial"] = int(tags.get("many_sweeps", 0))
    cov["salts"] = salts
    report.assumptions += ["n in {1,2,3,6} (quick) / 1..6 (thorough; selections of <=2 sets for n>3); bank of 9 sets with a common interior point",
                           "near-optimality clause restricted to tol<=1e-8: for looser user tolerances a correct iteration "
                           "may stop further than 1e-3 from the projection (a fact about the algorithm, see DESIGN.md)"]


def replay(rep):
    v = gridx.replay_case(MOD, rep["case"])
    return 1 if v else 0
