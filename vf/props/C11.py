"""C11 - the returned Jacobian is the fit through the evaluations it names.

alphabet: function {linear Ax-b, rosen, nzr (+ n=3 variants)} x npt in [n+1, 2n+1] x {no bounds, bounds, bounds+scaling} x
          EVERY maxfun from npt to npt+30 and three large values x restart {off, soft, hard(old rk), hard(new rk)}
          (+ averaging rows; single answer deviations in thorough)
oracle  : an independent numpy.linalg.lstsq fit of the recorded residual means on the recorded points (user
          coordinates) named by soln.jacmin_eval_nums; for linear residuals the matrix A itself.
"""
import numpy as np

from .. import common, solvex, cfgs, monitors as mon, oracles

LEVEL = "exploration"
MOD = "C11"
SITE_EXEMPT = {"initialise_coordinate_directions#0": "projections branch; C11 covers bound-constrained and unconstrained problems only"}


class JacobianMonitor(solvex.Monitor):
    def on_end(self, ex):
        if ex.outcome != "returned":
            if ex.outcome == "raised" and not mon.raise_is_allowed(ex):
                ex.violate("returns", "solve raised %s: %s" % (type(ex.exc).__name__, ex.exc))
            return
        s = ex.soln
        if s.flag == mon.INPUT_ERROR:
            ex.violate("returns", "input error for a valid configuration: %s" % s.msg)
            return
        J = s.jacobian
        nums = s.jacmin_eval_nums
        if J is None:
            ex.tags.add("no_jacobian")
            return
        if nums is None:
            ex.violate("eval_nums_present", "a Jacobian is returned without the list of evaluations it was built from")
            return
        nums = np.asarray(nums).astype(int)
        if np.any(nums < 1):
            ex.tags.add("partially_initialised")   # growing phase / early exit: outside the property's scope
            return
        groups = mon.groups_by_point(ex)
        up = ex.cfg.get("user_params") or {}
        npt_allowed = max(ex.cfg["npt"], up.get("restarts.max_npt", ex.cfg["npt"])) if up.get("restarts.increase_npt") else ex.cfg["npt"]
        if len(set(nums.tolist())) != len(nums):
            ex.violate("eval_nums_distinct", "jacmin_eval_nums has repeated entries: %s" % nums.tolist())
            return
        if np.any(nums > len(groups)) or not (ex.cfg["npt"] <= len(nums) <= npt_allowed):
            ex.violate("eval_nums_range", "jacmin_eval_nums=%s: out of range 1..%d or wrong length (npt=%d)" % (
                nums.tolist(), len(groups), ex.cfg["npt"]))
            return
        J = np.asarray(J, dtype=float)
        if J.shape != (ex.m, ex.n):
            ex.violate("shape", "jacobian has shape %s, expected (%d, %d)" % (J.shape, ex.m, ex.n))
            return
        X = np.array([groups[k][0]["x"] for k in nums])
        R = []
        for k in nums:
            rs = [c["r"] for c in groups[k] if c["r"] is not None]
            R.append(np.mean(np.array(rs), axis=0))
        R = np.array(R)
        if not np.all(np.isfinite(R)):
            ex.tags.add("nonfinite_data")
            return
        xr = X[0]
        D = X - xr
        dmax = max(1e-300, float(np.sqrt(np.max(np.sum(D * D, axis=1)))))
        W = np.hstack([np.ones((len(nums), 1)), D / dmax])
        cond = np.linalg.cond(W)
        if not np.isfinite(cond) or cond > 1e8:
            ex.tags.add("illconditioned_set")
            return
        sol = np.linalg.lstsq(W, R, rcond=None)[0]
        Jfit = (sol[1:, :] / dmax).T
        # rounding of the data is amplified by cond(W) and by the ratio |r| / (|J| * spread)
        rscale = max(1e-300, float(np.max(np.abs(R))))
        jscale = max(float(np.max(np.abs(Jfit))), rscale / dmax * 1e-8, 1e-300)
        # 1e-8*cond for ordinary data; where the Jacobian is tiny next to the residuals the differences cancel and rounding
        # (eps) is amplified by rscale/(dmax*jscale) - that amplification is accounted for explicitly, not by a loose constant
        tol = max(1e-8 * cond, 1e4 * np.finfo(float).eps * cond * rscale / (dmax * jscale))
        # the evaluation points seen by the objective are fl(xbase + step): positions are known to eps*|x| only, which relative
        # to the spread of the set is eps*|x|/dmax ("rounding of the base-point arithmetic amplified by the conditioning")
        xmax = float(np.max(np.abs(X)))
        tol = max(tol, 1e2 * np.finfo(float).eps * cond * xmax / dmax)
        err = float(np.max(np.abs(J - Jfit))) / jscale
        if err > tol:
            ex.violate("jacobian_is_fit", "soln.jacobian differs from the independent fit through evaluations %s by %.3g relative "
                       "(tol %.3g, cond %.3g): returned %s, fit %s [%s]" % (nums.tolist(), err, tol, cond, J.tolist(), Jfit.tolist(), s.msg))
        # with injected noise or deviated answers the data are not linear any more
        if ex.cfg["prob"]["f"] == "lin" and not ex.cfg.get("noise_amp") and not ex.devs:
            A = np.array(ex.cfg["prob"]["A"])
            errA = float(np.max(np.abs(J - A))) / max(1e-300, float(np.max(np.abs(A))))
            if errA > max(1e-6 * cond, 1e4 * np.finfo(float).eps * cond * rscale / (dmax * float(np.max(np.abs(A)))),
                          1e2 * np.finfo(float).eps * cond * xmax / dmax):
                ex.violate("jacobian_is_A", "linear residuals but soln.jacobian differs from A by %.3g relative (cond %.3g)" % (errA, cond))
        ex.tags.add("jacobian_checked")
        if len(nums) > ex.n + 1:
            ex.tags.add("checked_regression")
        if ex.cfg.get("scaling"):
            ex.tags.add("checked_scaled")
        if ex.soft_restarts:
            ex.tags.add("checked_after_soft_restart")
        if ex.solve_main_calls > 1:
            ex.tags.add("checked_after_hard_restart")
        if s.flag == 1:
            ex.tags.add("checked_budget_exit")
        if int(s.xmin_eval_num) not in nums.tolist():
            ex.tags.add("checked_saved_point_not_in_set")


def monitors(cfg):
    return [JacobianMonitor()]


def classify(cfg, clause, detail):
    return {"restart": cfg.get("tag_restart"), "scaling": bool(cfg.get("scaling"))}


def _problems(n, salt):
    if n == 2:
        A, b = oracles.lin_bank(3, 2, 30.0, 0, salt)
        return [({"f": "lin", "A": A.tolist(), "b": b.tolist(), "salt": salt}, [0.6, -0.4]),
                ({"f": "rosen", "salt": salt}, [-1.2, 1.0]), ({"f": "nzr", "salt": salt}, [-1.2, 1.0]),
                # badly scaled units: a Jacobian of size 1e-7 next to residuals of size 1, and a rank-deficient Jacobian
                ({"f": "lin", "A": (1e-7 * A).tolist(), "b": (b + 1.0).tolist(), "salt": salt}, [0.6, -0.4]),
                ({"f": "lin", "A": [[1.0, 2.0], [2.0, 4.0], [0.5, 1.0]], "b": [0.3 + 0.01 * salt, -0.2, 0.9], "salt": salt}, [0.6, -0.4])]
    A, b = oracles.lin_bank(4, 3, 30.0, 1, salt)
    return [({"f": "lin", "A": A.tolist(), "b": b.tolist(), "salt": salt}, [0.6, -0.4, 0.2]),
            ({"f": "nzr3", "salt": salt}, [0.5, -0.5, 1.0])]


def _configs(tier, salts):
    out = []
    for salt in salts:
        for n in ((2,) if tier == "quick" and salt != 0 else (2, 3)):
            for prob, x0 in _problems(n, salt):
                for npt in range(n + 1, 2 * n + 2):
                    if n == 3 and tier == "quick" and npt not in (4, 7):
                        continue
                    for bmode in ("none", "bounds", "scaling"):
                        for rmode in ("none", "soft", "hard_old", "hard_new", "soft_inc"):
                            if n == 3 and tier == "quick" and rmode in ("soft_inc",):
                                continue
                            budgets = list(range(npt, npt + 31)) + [80, 150, 300]
                            if salt != 0 or (n == 3 and tier == "quick"):
                                budgets = budgets[::3]
                            for maxfun in budgets:
                                cfg = {"prob": prob, "x0": list(x0), "npt": npt, "rhobeg": 0.3, "rhoend": 0.01, "maxfun": maxfun,
                                       "memo": True, "tag_restart": rmode,
                                       "user_params": cfgs.user_params(npt, cfgs.RESTART_MODES[rmode])}
                                if bmode != "none":
                                    cfg["lo"] = [v - 0.9 for v in x0]
                                    cfg["hi"] = [v + 1.7 + 0.3 * j for j, v in enumerate(x0)]
                                    cfg["scaling"] = bmode == "scaling"
                                depth = 0
                                if tier == "thorough" and salt == 0 and n == 2 and maxfun in (npt + 10, 80) and npt in (3, 5):
                                    depth = 1
                                out.append((cfg, {"depth": depth, "letters": ["best", "x3", "tie"]}))
                # averaging rows
                if salt == 0:
                    for npt in (n + 1, 2 * n + 1):
                        for rmode in ("none", "soft", "hard_old"):
                            for maxfun in (npt * 2 + 7, 60, 150):
                                cfg = {"prob": prob, "x0": list(x0), "npt": npt, "rhobeg": 0.3, "rhoend": 0.01, "maxfun": maxfun,
                                       "memo": False, "noise_amp": 0.01, "nsamples": "const2", "tag_restart": rmode,
                                       "user_params": cfgs.user_params(npt, cfgs.RESTART_MODES[rmode])}
                                out.append((cfg, {"depth": 0}))
        if salt == 0 or (tier == "thorough" and salt == 1):
            # declared linear-algebra faults: the Jacobian returned after a failed fit / an error-recovery restart
            for cfg, plan in cfgs.linalg_fault_cfgs(salt, tier, modes=("none", "soft", "soft_inc", "hard_old", "hard_new", "bounds_scaling_soft",
                                                                       "npt5_extra_soft", "grow_newdirs_soft", "avg2_soft")):
                out.append((dict(cfg, tag_restart="la"), plan))
        if salt == 0 or (tier == "thorough" and salt == 1):
            for name, cfg in cfgs.broad_cfgs(salt=salt, exclude=("reg", "regfast", "sets"), budgets=tuple(range(4, 64, 3 if tier == "quick" else 1)),
                                             overlays=("avg", "soft")):
                cfg = dict(cfg, tag_restart="broad")
                out.append((cfg, {"depth": 0}))
    return out


def run(report, tier, seed):
    salts = common.salts_for(tier, seed)
    cps = _configs(tier, salts)
    res = solvex.explore(report, MOD, cps, classify=classify)
    solvex.site_floor(report, res["tags"], exempt=SITE_EXEMPT)
    tags = res["tags"]
    cov = report.coverage
    need = ["jacobian_checked", "checked_regression", "checked_scaled", "checked_after_soft_restart",
            "checked_after_hard_restart", "checked_budget_exit", "checked_saved_point_not_in_set"]
    missing = [t for t in need if not tags.get(t)]
    if missing:
        raise common.HarnessError("C11 exploration is vacuous: %s never occurred" % missing)
    cov["rule"] = ("one execution per (function, npt, bounds/scaling, restart mode, every budget) [+ single answer deviations "
                   "in thorough]; non-trivial = executions in which a Jacobian with a fully initialised point set was "
                   "returned and compared with the independent fit")
    cov["distinct_nontrivial"] = int(tags.get("jacobian_checked", 0))
    cov["skipped"] = {k: tags.get(k, 0) for k in ("no_jacobian", "partially_initialised", "illconditioned_set", "nonfinite_data")}
    cov["salts"] = salts
    report.assumptions += ["tolerance 1e-8*cond(W) (1e-6*cond for the comparison with A); point sets with cond > 1e8 are counted "
                           "but not asserted", "n<=3"]


def replay(rep):
    ex = solvex.replay(rep)
    return 1 if ex.viol else 0
