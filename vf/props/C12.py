"""C12 - the box trust-region subproblem solver returns feasible, decreasing steps.

alphabet: g in {-1,0,1,1e-3}^n x scale decades x H family (zero, identity, diagonal, rank-1 PSD, dense PSD, indefinite,
          negative definite) x delta decades x per-coordinate bound pattern {far, at lower, at upper, 1e-10*delta from
          lower, within 0.3-0.4 delta} (all 5^n patterns) x current point {0, non-representable}
bound   : n <= 3 (quick), n <= 4 (thorough): the full Cartesian product; n = 6 (quick), n in {5, 6, 8} (thorough): every
          assignment with at most two coordinates departing from a default coordinate (gradient +-1, far bounds)
oracle  : exact feasibility of xopt+d, ||d|| <= delta(1+1e-8), q(d) <= 0, q(d) <= q(Cauchy point) with the Cauchy
          point computed independently, returned gradient == g + H d.
"""
import itertools
import numpy as np

from .. import common, gridx

LEVEL = "exploration"
MOD = "vf.props.C12"

G_LETTERS = [-1.0, 0.0, 1.0, 1e-3]
SCALES = [1e-3, 1.0, 1e3]
DELTAS = [1e-6, 1e-2, 1.0, 1e2]
PATTERNS = ["far", "lo", "hi", "nearlo", "within"]
HFAMS = ["zero", "eye", "diag", "rank1", "dense", "indef", "negdef"]
XOPTS = {0: None, 1: [0.1, -0.3, 0.7, 1.0 / 3.0]}


def make_H(fam, n, salt=0):
    e = 0.01 * salt
    if fam == "zero":
        return np.zeros((n, n))
    if fam == "eye":
        return np.eye(n)
    if fam == "diag":
        return np.diag([10.0 ** (i - 1) * (1 + e) for i in range(n)])
    v = np.arange(1.0, n + 1.0) * np.array([(-1.0) ** i for i in range(n)]) + e
    if fam == "rank1":
        return np.outer(v, v)
    A = np.cos(np.outer(np.arange(1, n + 2), np.arange(1, n + 1)) * (0.7 + e))
    if fam == "dense":
        return A.T.dot(A)
    if fam == "indef":
        D = np.diag([(-1.0) ** i * (i + 1.0) for i in range(n)])
        Q = np.linalg.qr(A[:n, :] + 2 * np.eye(n))[0]
        M = Q.dot(D).dot(Q.T)
        return 0.5 * (M + M.T)
    if fam == "negdef":
        return -(np.eye(n) + 0.1 * A.T.dot(A))
    raise ValueError(fam)


def cases(tier, salts):
    out = []
    ns = [1, 2, 3] if tier == "quick" else [1, 2, 3, 4]
    for salt in salts:
        for n in ns:
            if n == 4 and salt > 1:
                continue
            gl = G_LETTERS if n <= 3 else [-1.0, 0.0, 1.0]
            scales = SCALES if n <= 3 else [1e-3, 1.0]
            hf = HFAMS if n <= 3 else ["zero", "rank1", "dense", "indef"]
            deltas = DELTAS if n <= 3 else [1e-6, 1.0, 1e2]
            xos = [0, 1] if (n <= 2 or (tier == "thorough" and n == 3)) and salt == 0 else [1 if salt else 0]
            if n == 3 and tier == "quick":
                xos = [1]
            for xo in xos:
                for g in itertools.product(gl, repeat=n):
                    if salt != 0 and n == 3 and tier == "quick" and sum(1 for t in g if t == 1e-3) > 1:
                        continue
                    for sc in scales:
                        for fam in hf:
                            for dl in deltas:
                                for pat in itertools.product(range(len(PATTERNS)), repeat=n):
                                    out.append({"n": n, "g": list(g), "sc": sc, "H": fam, "delta": dl, "pat": list(pat),
                                                "xo": xo, "salt": salt})
    return out + wide_cases(tier, salts) + path_cases(tier, salts)


def path_cases(tier, salts):
    """The frozen iteration-path bank (vf/banks/trsbox_paths.json, built by tools/build_pathbank.py from a deterministic
    candidate stream by keeping the candidates that add a new iteration event / ordered pair of iteration events of the CG
    and boundary loops): explicit small-integer instances, n = 2..6, all H kinds.  Every member is run on every salt in
    use (the salt perturbs g and H by a factor 1 + 0.01 salt, which moves the paths slightly)."""
    import json
    import os
    p = os.path.join(os.path.dirname(os.path.dirname(os.path.abspath(__file__))), "banks", "trsbox_paths.json")
    with open(p) as f:
        bank = json.load(f)["cases"]
    out = []
    for salt in salts:
        for c in bank:
            c = dict(c)
            c["salt"] = salt
            c["pathbank"] = True
            out.append(c)
    return out


def wide_cases(tier, salts):
    """n = 5..8 (the property quantifies up to n = 8): deviation-bounded enumeration.  The default coordinate has gradient
    letter +-1 (alternating) and far bounds; EVERY assignment in which at most two coordinates (all position pairs) depart
    from the default, each to any (gradient letter, bound pattern) pair, is enumerated."""
    out = []
    ns = [6] if tier == "quick" else [5, 6, 8]
    menu = [(gl, pi) for gl in G_LETTERS for pi in range(len(PATTERNS))]
    for salt in salts:
        if salt != salts[0] and tier == "quick":
            continue
        for n in ns:
            if n == 8 and salt > 1:
                continue
            base_g = [(-1.0) ** i for i in range(n)]
            combos = [()]
            combos += [((i, a),) for i in range(n) for a in menu]
            combos += [((i, a), (j, b)) for i in range(n) for j in range(i + 1, n) for a in menu for b in menu]
            scales = [1.0] if tier == "quick" else [1e-3, 1.0]
            deltas = [1e-2, 1e2] if tier == "quick" else [1e-6, 1.0, 1e2]
            hf = ["zero", "dense", "indef", "negdef"] if tier == "quick" else ["zero", "diag", "rank1", "dense", "indef", "negdef"]
            for combo in combos:
                g = list(base_g)
                pat = [0] * n
                for (i, (gl, pi)) in combo:
                    g[i], pat[i] = gl, pi
                for sc in scales:
                    for fam in hf:
                        for dl in deltas:
                            out.append({"n": n, "g": g, "sc": sc, "H": fam, "delta": dl, "pat": pat, "xo": 1, "salt": salt, "wide": True})
    return out


def build(case):
    n = case["n"]
    if case.get("explicit"):
        f = 1.0 + 0.01 * case.get("salt", 0)
        return (np.array(case["xopt"], dtype=float), np.array(case["g"], dtype=float) * f,
                np.array(case["H"], dtype=float).reshape(n, n) * f, np.array(case["sl"], dtype=float),
                np.array(case["su"], dtype=float), float(case["delta"]))
    g = np.array(case["g"]) * case["sc"]
    H = make_H(case["H"], n, case["salt"]) * (case["sc"] if case["H"] != "zero" else 1.0)
    delta = case["delta"]
    xopt = np.zeros(n) if XOPTS[case["xo"]] is None else np.array((XOPTS[case["xo"]] * 2)[:n]) * (1.0 + 0.01 * case["salt"])
    sl = np.zeros(n)
    su = np.zeros(n)
    for i, p in enumerate(case["pat"]):
        p = PATTERNS[p]
        if p == "far":
            sl[i], su[i] = xopt[i] - 1e20, xopt[i] + 1e20
        elif p == "lo":
            sl[i], su[i] = xopt[i], xopt[i] + 10 * delta
        elif p == "hi":
            sl[i], su[i] = xopt[i] - 10 * delta, xopt[i]
        elif p == "nearlo":
            sl[i], su[i] = xopt[i] - 1e-10 * delta, xopt[i] + 10 * delta
        else:
            sl[i], su[i] = xopt[i] - 0.3 * delta, xopt[i] + 0.4 * delta
    # the caller guarantees sl <= xopt <= su; rounding of xopt - 1e-10*delta may collapse onto xopt, which is still valid
    return xopt, g, H, sl, su, delta


def cauchy_decrease(xopt, g, H, sl, su, delta):
    """Model value at the steepest-descent step on the free variables, truncated at the first bound or the ball."""
    free = ~(((xopt <= sl) & (g >= 0.0)) | ((xopt >= su) & (g <= 0.0)))
    s = np.where(free, -g, 0.0)
    ss = float(np.dot(s, s))
    if ss == 0.0:
        return 0.0
    tmax = delta / np.sqrt(ss)
    for i in range(len(s)):
        if s[i] > 0:
            tmax = min(tmax, (su[i] - xopt[i]) / s[i])
        elif s[i] < 0:
            tmax = min(tmax, (sl[i] - xopt[i]) / s[i])
    tmax = max(tmax, 0.0)
    shs = float(s.dot(H).dot(s))
    t = tmax if shs <= 0 else min(tmax, ss / shs)
    return -t * ss + 0.5 * t * t * shs


def check_case(case):
    from dfols.trust_region import trsbox
    xopt, g, H, sl, su, delta = build(case)
    d, gnew, crvmin = trsbox(xopt.copy(), g.copy(), H.copy(), sl.copy(), su.copy(), delta)
    v = []
    tags = []
    n = case["n"]
    if not np.all(np.isfinite(d)):
        return [("finite", "step is not finite: %s" % d.tolist())], tags
    xn = xopt + d
    if np.any(xn < sl) or np.any(xn > su):
        j = int(np.argmax(np.maximum(sl - xn, xn - su)))
        v.append(("box", "xopt+d violates the box in coordinate %d by %.3g (xopt=%r d=%r sl=%r su=%r)" % (
            j, float(max(sl[j] - xn[j], xn[j] - su[j])), xopt[j], d[j], sl[j], su[j])))
    nd = float(np.linalg.norm(d))
    if nd > delta * (1 + 1e-8):
        v.append(("ball", "||d||=%.17g > delta=%.17g" % (nd, delta)))
    gs = float(np.max(np.abs(g))) if n else 0.0
    hs = float(np.max(np.abs(H)))
    qscale = max(gs * delta, hs * delta * delta, 1e-300)
    q = float(g.dot(d) + 0.5 * d.dot(H).dot(d))
    if q > 1e-12 * qscale:
        v.append(("no_increase", "q(d)=%.3g > 0 (scale %.3g)" % (q, qscale)))
    qc = cauchy_decrease(xopt, g, H, sl, su, delta)
    # the step is returned as d = clip(xopt + d) - xopt, so every component carries an absolute rounding error of about
    # eps*|xopt_i| whatever the size of delta (it matters when delta << |xopt|): allow its first-order effect on q
    xo_round = 2.0 * n * np.finfo(float).eps * (float(np.max(np.abs(xopt))) if n else 0.0)
    if q > qc + 1e-10 * qscale + xo_round * (gs + hs * delta):
        v.append(("cauchy", "q(d)=%.6g but the truncated steepest-descent step achieves %.6g (scale %.3g)" % (q, qc, qscale)))
    want = g + H.dot(d)
    if np.max(np.abs(gnew - want)) > 1e-10 * max(gs + hs * nd, 1e-300) + xo_round * hs * n:
        v.append(("gradient", "returned gradient differs from g+Hd by %.3g (scale %.3g)" % (
            float(np.max(np.abs(gnew - want))), gs + hs * nd)))
    if qc < -1e-14 * qscale:
        tags.append("cauchy_nonzero")
    if nd >= delta * (1 - 1e-6):
        tags.append("on_ball")
    if np.any(xn == sl) or np.any(xn == su):
        tags.append("on_box")
    if nd == 0.0:
        tags.append("zero_step")
    if crvmin == 0.0:
        tags.append("alt_step")
    return v, tags


def classify(case, clause, detail):
    return {"H": case.get("Hkind", case["H"]) if case.get("explicit") else case["H"], "n": case["n"]}


def run(report, tier, seed):
    salts = common.salts_for(tier, seed)
    cs = cases(tier, salts)
    tags = gridx.run_grid(report, MOD, cs, classify=classify, chunk=2000)
    cov = report.coverage
    for t in ("cauchy_nonzero", "on_ball", "on_box", "alt_step", "zero_step"):
        if not tags.get(t):
            raise common.HarnessError("C12 grid is vacuous: no case tagged %s" % t)
    cov["rule"] = ("Cartesian product of g letters^n x scale x H family x delta x all 5^n per-coordinate bound patterns x "
                   "current point; non-trivial = cases in which the Cauchy decrease is non-zero (the step is not forced to 0)")
    cov["distinct_nontrivial"] = int(tags.get("cauchy_nonzero", 0))
    cov["salts"] = salts
    path_report(report)
    report.assumptions += ["n<=3 (quick) / n<=4 (thorough; property quantifies to n=8); data from fixed families", "Python "
                           "kernels only (the optional Fortran trustregion package is not installed)"]


def path_report(report):
    """Re-trace the frozen path bank on the tree under test and report the iteration-path items it covers (reporting
    only: items are comparable with the recorded number only while the kernel's source text is the recorded one)."""
    import json
    import os
    from .. import pathcov
    p = os.path.join(os.path.dirname(os.path.dirname(os.path.abspath(__file__))), "banks", "trsbox_paths.json")
    with open(p) as f:
        bank = json.load(f)
    cs = bank["cases"]
    items = set()
    for part in common.pool_map(pathcov.trace_bank, [cs[i:i + 100] for i in range(0, len(cs), 100)]):
        items |= set(part)
    kinds = {"iteration_events": 0, "ordered_pairs_same_loop": 0, "handovers": 0}
    for t in items:
        kinds[{"1": "iteration_events", "p": "ordered_pairs_same_loop", "c": "handovers"}.get(t[0], "iteration_events")] += 1
    same = pathcov.source_sha() == bank.get("source_sha")
    report.coverage["path_bank"] = {"cases": len(cs), "built_from_candidates": bank["built_from_candidates"],
                                    "items_recorded": bank["items"], "items_covered_now": len(items), "by_kind": kinds,
                                    "kernel_source_is_the_recorded_one": same}
    if same and len(items) < bank["items"]:
        raise common.HarnessError("C12 path bank covers %d iteration-path items, %d were recorded for this source text"
                                  % (len(items), bank["items"]))


def replay(rep):
    v = gridx.replay_case(MOD, rep["case"])
    return 1 if v else 0
