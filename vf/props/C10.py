"""C10 - exit flags and messages tell the truth.

alphabet: problem x model.abs_tol x maxfun x rhoend x restart setting x max_unsuccessful_restarts (incl. the boundary value
          0) x rhoend_scale x answer deviations {x0, best, tie, x3, nan, inf}
bound   : <=1 deviation (quick) / <=2 on a reduced set (thorough); n=2
oracle  : clause-by-clause predicates evaluated at exit on the recorded calls, the live controller (rho) and the number
          of restarts really performed (counted through wrapped soft_restart / solve_main).
"""
import numpy as np

from .. import common, solvex, cfgs, monitors as mon

LEVEL = "exploration"
MOD = "C10"
SITE_EXEMPT = {}     # evaluation sites this check cannot reach (site -> reason); see solvex.site_floor
EXIT_EXEMPT = {}     # exit sites this check cannot reach; see solvex.exit_floor


class ExitTruthMonitor(solvex.Monitor):
    def start(self, ex):
        # count runs that end through the auto-detection test (the flag is internal: solve() turns it into a restart)
        import dfols.controller as C
        ex.autodetect_exits = 0
        self.orig = C.ExitInformation.__init__
        orig = self.orig

        def init(info, flag, msg):
            if flag == C.EXIT_AUTO_DETECT_RESTART_WARNING:
                ex.autodetect_exits += 1
            orig(info, flag, msg)
        C.ExitInformation.__init__ = init

    def on_end(self, ex):
        import dfols.controller as C
        C.ExitInformation.__init__ = self.orig
        self._on_end(ex)

    def _on_end(self, ex):
        if ex.outcome != "returned":
            if ex.outcome == "raised" and not mon.raise_is_allowed(ex):
                ex.violate("returns", "solve raised %s: %s" % (type(ex.exc).__name__, ex.exc))
            return
        s = ex.soln
        cfg = ex.cfg
        up = cfg.get("user_params") or {}
        if s.flag == mon.INPUT_ERROR:
            ex.violate("returns", "input error for a valid configuration: %s" % s.msg)
            return
        msg = str(s.msg)
        ncalls = len(ex.calls)
        maxfun = cfg["maxfun"]
        abs_tol = up.get("model.abs_tol", 1e-12)
        rel_tol = up.get("model.rel_tol", 1e-20)
        ex.tags.add("msg:" + msg.split(":")[-1].strip()[:45])
        if "sufficiently small" in msg:
            # f(x0): average over the samples of the first point
            g0 = [c for c in ex.calls if c["pt_num"] == 1 and c["r"] is not None]
            r0 = np.mean(np.array([c["r"] for c in g0]), axis=0)
            f0 = float(np.dot(r0, r0)) + mon.hval(ex, ex.calls[0]["x"])
            thr = max(abs_tol, rel_tol * f0) if np.isfinite(f0) else abs_tol
            if not (s.obj <= thr * (1 + 1e-12)):
                ex.violate("small_objective", "'%s' but obj=%r > max(abs_tol=%g, rel_tol*f(x0)=%g)" % (msg, s.obj, abs_tol, rel_tol * f0))
        if s.flag == mon.SUCCESS and "rho has reached rhoend" in msg:
            ctl = ex.controllers[-1]
            scale = up.get("restarts.rhoend_scale", 1.0)
            nrest = ex.soft_restarts + (ex.solve_main_calls - 1)
            want = cfg["rhoend"] * scale ** nrest
            if not abs(ctl.rho - want) <= 1e-12 * want:
                ex.violate("rho_is_rhoend", "'%s' but the trust-region lower bound is %r, rhoend (rescaled for %d restart(s)) is %r" % (
                    msg, ctl.rho, nrest, want))
        if s.flag == 1:     # EXIT_MAXFUN_WARNING
            if ncalls != maxfun or s.nf != maxfun:
                ex.violate("maxfun", "max-evaluations warning but %d calls were made (nf=%s, maxfun=%d)" % (ncalls, s.nf, maxfun))
        if "maximum number of unsuccessful restarts" in msg:
            k = up.get("restarts.max_unsuccessful_restarts", 10)
            if not s.nruns >= k:
                ex.violate("unsuccessful_restarts", "'%s' (limit %d) but only %d run(s) were performed" % (msg, k, s.nruns))
            if not up.get("restarts.use_restarts", bool(cfg.get("objfun_has_noise"))):
                ex.violate("unsuccessful_restarts", "'%s' although restarts are not enabled" % msg)
            # the message claims the run ended BECAUSE the restart limit was hit: not true if the budget is exhausted
            # or the run ended for a reason that does not allow restarts
            ex.tags.add("unsucc_restart_exit")
        restarts = ex.soft_restarts + (ex.solve_main_calls - 1)
        if s.nruns != 1 + restarts:
            ex.violate("nruns", "soln.nruns=%s but %d soft + %d hard restart(s) were performed" % (
                s.nruns, ex.soft_restarts, ex.solve_main_calls - 1))
        if s.flag == mon.SUCCESS and (s.obj is None or not np.isfinite(s.obj)):
            ex.violate("success_nonfinite", "success flag with obj=%r [%s]" % (s.obj, msg))
        if ex.autodetect_exits:
            ex.tags.add("autodetect_exit")
        if restarts:
            ex.tags.add("restarted")
        if ex.soft_restarts:
            ex.tags.add("soft_restarted")
        if ex.solve_main_calls > 1:
            ex.tags.add("hard_restarted")


def monitors(cfg):
    return [ExitTruthMonitor()]


def classify(cfg, clause, detail):
    up = cfg.get("user_params") or {}
    return {"restart": cfg.get("tag_restart"), "max_unsucc": up.get("restarts.max_unsuccessful_restarts"),
            "rhoend_scale": up.get("restarts.rhoend_scale")}


LETTERS = ["x0", "best", "tie", "x3", "nan", "inf"]


def _configs(tier, salts):
    out = []
    for salt in salts:
        for prob in ("rosen", "nzr"):
            for abs_tol in (1e-12, 1e-2, 1.0):
                for rhoend in (1e-2, 1e-5, 1e-8):
                    for rmode in ("none", "soft", "hard_old", "hard_new"):
                        mus = [10] if rmode == "none" else [0, 1, 2, 10]
                        if rmode == "none":
                            mus = [10, 0]
                        for mu in mus:
                            for rs in ((1.0, 0.1) if rmode != "none" else (1.0,)):
                                for maxfun in (1, 2, 3, 5, 10, 30, 60, 200):
                                    if salt != 0 and (abs_tol != 1e-12 or maxfun not in (5, 30, 200)):
                                        continue
                                    if tier == "quick" and rhoend == 1e-5 and abs_tol != 1e-12:
                                        continue
                                    up = dict(cfgs.RESTART_MODES[rmode])
                                    if abs_tol != 1e-12:
                                        up["model.abs_tol"] = abs_tol
                                    if mu != 10:
                                        up["restarts.max_unsuccessful_restarts"] = mu
                                    if rs != 1.0:
                                        up["restarts.rhoend_scale"] = rs
                                    cfg = cfgs.base_cfg(prob, salt, npt=3, rhobeg=0.3, rhoend=rhoend, maxfun=maxfun, memo=True,
                                                        user_params=cfgs.user_params(3, up), tag_restart=rmode)
                                    depth = 0
                                    if salt == 0 and abs_tol == 1e-12 and rhoend == 1e-2 and maxfun in (10, 30) and mu in (0, 2, 10):
                                        depth = 1
                                    if tier == "thorough" and salt == 0 and maxfun in (10, 30, 60) and rhoend in (1e-2, 1e-5):
                                        depth = 1
                                    if tier == "thorough" and salt == 0 and prob == "nzr" and abs_tol == 1e-12 and rhoend == 1e-2 \
                                            and maxfun == 30 and mu == 2 and rs == 0.1:
                                        depth = 2
                                    out.append((cfg, {"depth": depth, "letters": LETTERS if depth < 2 else ["best", "x3", "nan"]}))
        # auto-detected restarts (noisy objective, short history) under hard and soft restarts, every budget: the exit
        # 'Auto-detected restart' is one more of the ~30 exit sites of the main loop
        if salt == 0 or (tier == "thorough" and salt == 1):
            AD = {"restarts.auto_detect.history": 3, "restarts.auto_detect.min_chgJ_slope": 0.0, "restarts.auto_detect.min_correl": 0.0}
            for rmode in ("hard_old", "hard_new", "soft"):
                for prob in ("rosen", "nzr"):
                    for mu in (2, 10):
                        for maxfun in range(4, 90 if tier == "quick" else 160, 1 if mu == 10 else 3):
                            up = dict(cfgs.RESTART_MODES[rmode], **AD)
                            up["restarts.max_unsuccessful_restarts"] = mu
                            cfg = cfgs.base_cfg(prob, salt, npt=3, rhobeg=0.3, rhoend=1e-3, maxfun=maxfun, memo=False, noise_amp=0.3,
                                                objfun_has_noise=True, user_params=cfgs.user_params(3, up), tag_restart=rmode + "_autodetect")
                            out.append((cfg, {"depth": 0}))
        # sample averaging with a user tolerance, every budget (the budget ends inside a point's samples for most of them):
        # the small-objective test is made on the mean of the samples actually taken
        if salt == 0 or (tier == "thorough" and salt == 1):
            for prob in ("rosen", "nzr"):
                for ns in ("const2", "const3", "iter%3+1"):
                    for abs_tol in (1e-12, 1.0, 8.0):
                        for rmode in ("none", "soft"):
                            for maxfun in range(1, 46 if tier == "quick" else 90):
                                up = dict(cfgs.RESTART_MODES[rmode])
                                if abs_tol != 1e-12:
                                    up["model.abs_tol"] = abs_tol
                                cfg = cfgs.base_cfg(prob, salt, npt=3, rhobeg=0.3, rhoend=1e-2, maxfun=maxfun, memo=False, noise_amp=0.02,
                                                    nsamples=ns, user_params=cfgs.user_params(3, up), tag_restart=rmode + "_avg")
                                out.append((cfg, {"depth": 0}))
        # regulariser, start at the exact solution of a square linear system: zero residual but sum(r^2)+h(x0) > abs_tol, so a
        # 'sufficiently small' claim at x0 would be false; also with a small-objective threshold that the regularised value meets
        if salt == 0 or (tier == "thorough" and salt == 1):
            for reg in ("l1", "l2"):
                for at in (None, 10.0):
                    up = {"func_tol.max_iters": 10}
                    if at is not None:
                        up["model.abs_tol"] = at
                    cfg = {"prob": {"f": "lin", "A": [[1.0, 0.5], [0.25, 1.0]], "b": [1.0, -0.5 + 0.01 * salt], "salt": salt},
                           "x0": np.linalg.solve(np.array([[1.0, 0.5], [0.25, 1.0]]), np.array([1.0, -0.5 + 0.01 * salt])).tolist(),
                           "reg": {"r": reg, "lam": 0.5}, "npt": 3, "rhobeg": 0.3, "rhoend": 0.01, "maxfun": 40, "memo": True,
                           "user_params": up, "tag_restart": "reg_zero_residual_x0"}
                    out.append((cfg, {"depth": 0}))
        # geometries whose trust-region step can increase the model (the warning / error exits of calculate_ratio)
        if salt == 0 or (tier == "thorough" and salt == 1):
            for cfg, plan in cfgs.tr_increase_cfgs(salt, restarts=("none", "hard_new", "soft")):
                out.append((dict(cfg, tag_restart="trinc"), plan))
        # declared linear-algebra faults (the three linear-algebra exits and the restarts that recover from them)
        if salt == 0 or (tier == "thorough" and salt == 1):
            for cfg, plan in cfgs.linalg_fault_cfgs(salt, tier):
                out.append((dict(cfg, tag_restart="la"), plan))
        # the broad option bank over many budgets
        if salt == 0 or (tier == "thorough" and salt == 1):
            for name, cfg in cfgs.broad_cfgs(salt=salt, budgets=tuple(range(2, 62, 3 if tier == "quick" else 1)), reg_budgets=(3, 8),
                                             overlays=("avg", "soft") if tier == "thorough" else ("soft",)):
                cfg = dict(cfg, tag_restart="broad")
                out.append((cfg, {"depth": 0}))
        # an objective that is non-finite at EVERY evaluation (one more way a run can end)
        if salt == 0:
            for rmode in ("none", "soft", "hard_old", "hard_new"):
                for L in ("nan", "inf", "-inf", "1e200", "nan1"):
                    for mu in (0, 2, 10):
                        for maxfun in (4, 60):
                            up = dict(cfgs.RESTART_MODES[rmode])
                            up["restarts.max_unsuccessful_restarts"] = mu
                            cfg = cfgs.base_cfg("rosen", salt, npt=3, rhobeg=0.3, rhoend=1e-2, maxfun=maxfun, memo=True,
                                                user_params=cfgs.user_params(3, up), tag_restart=rmode, all_letter=L)
                            out.append((cfg, {"depth": 0}))
    return out


def run(report, tier, seed):
    salts = common.salts_for(tier, seed)
    cps = _configs(tier, salts)
    res = solvex.explore(report, MOD, cps, classify=classify)
    solvex.site_floor(report, res["tags"], exempt=SITE_EXEMPT)
    solvex.exit_floor(report, res["tags"], exempt=EXIT_EXEMPT)
    tags = res["tags"]
    cov = report.coverage
    msgs = sorted(t for t in tags if t.startswith("msg:"))
    need = ["autodetect_exit", "msg:Objective is sufficiently small", "msg:rho has reached rhoend", "msg:Objective has been called MAXFUN times",
            "msg:Reached maximum number of unsuccessful restar", "soft_restarted", "hard_restarted"]
    missing = [t for t in need if not tags.get(t)]
    if missing:
        raise common.HarnessError("C10 exploration is vacuous: %s never occurred (messages: %s)" % (missing, msgs))
    cov["rule"] = ("executions of dfols.solve over the stated configuration alphabet (+ all single answer deviations on a "
                   "sub-grid; pairs on one configuration in thorough); non-trivial = distinct (flag, message, runs, last "
                   "evaluation site) outcomes")
    cov["distinct_nontrivial"] = cov["distinct_outcomes"]
    cov["messages"] = {t[4:]: tags[t] for t in msgs}
    cov["salts"] = salts
    report.assumptions += ["restarts counted through wrapped Controller.soft_restart (returning None) and solve_main calls; "
                           "rho read from the live controller at exit", "n=2"]


def replay(rep):
    ex = solvex.replay(rep)
    return 1 if ex.viol else 0
