"""E2 `modelx`: explicit-state breadth-first search over operation histories of a real object.

A *system* (given by module path + params) provides:
    init(params)                -> state            (fresh real object + reference/shadow model)
    ops(state, params)          -> list of op tuples enabled in that state (small finite menu, JSON-able)
    apply(state, op, params)    -> list of violations [(clause, detail)] after executing op on the REAL object and on
                                   the shadow, and comparing them (may raise Disabled if the op's precondition fails)
    key(state)                  -> bytes: canonical form of everything the future can depend on
States are identified with the operation history that reaches them and are rebuilt by replaying that history on a
fresh real object (live objects are not shipped between processes).  The frontier of each BFS level is expanded in
parallel; de-duplication is done by the parent on the canonical keys.
"""
import hashlib
import importlib
import traceback

from . import common
from .common import HarnessError


class Disabled(Exception):
    """The operation is not enabled in this state (precondition of the real method not met)."""


def _expand(task):
    sysname, params, histories = task
    try:
        sysm = importlib.import_module(sysname)
        out = []
        viol = []
        ntrans = 0
        ndis = 0
        for hist in histories:
            base = sysm.init(params)
            for op in hist:
                sysm.apply(base, op, params, check=False)
            for op in sysm.ops(base, params):
                st = sysm.clone(base)
                try:
                    v = sysm.apply(st, op, params, check=True)
                except Disabled:
                    ndis += 1
                    continue
                ntrans += 1
                h2 = list(hist) + [op]
                for clause, detail in v:
                    viol.append((clause, detail, h2))
                if not v:
                    out.append((hashlib.sha1(sysm.key(st)).digest(), h2))
        return {"succ": out, "viol": viol, "ntrans": ntrans, "ndis": ndis}
    except Exception:  # noqa: BLE001
        return {"error": traceback.format_exc(limit=10)}


def bfs(sysname, params, depth, nproc=None, chunk=40, max_states=None):
    """Breadth-first search to `depth`.  Returns dict(states, transitions, violations, per_level, capped)."""
    sysm = importlib.import_module(sysname)
    s0 = sysm.init(params)
    v0 = sysm.check(s0, params)
    seen = {hashlib.sha1(sysm.key(s0)).digest()}
    frontier = [[]]
    violations = [(c, d, []) for c, d in v0]
    transitions = 0
    disabled = 0
    per_level = [1]
    capped = False
    samples = []
    for level in range(depth):
        tasks = [(sysname, params, frontier[i:i + chunk]) for i in range(0, len(frontier), chunk)]
        nxt = []
        for res in common.pool_map(_expand, tasks, nproc=nproc):
            if "error" in res:
                raise HarnessError("modelx worker failed: " + res["error"])
            transitions += res["ntrans"]
            disabled += res["ndis"]
            violations.extend(res["viol"])
            for k, h in res["succ"]:
                if k not in seen:
                    seen.add(k)
                    nxt.append(h)
        nxt.sort(key=lambda h: common.sha(h))   # deterministic order independent of worker scheduling
        if len(samples) < 3 and nxt:
            samples.append(nxt[len(nxt) // 2])
        per_level.append(len(nxt))
        frontier = nxt
        if max_states is not None and len(seen) > max_states and level + 1 < depth:
            capped = True
            break
        if not frontier:
            break
    return {"states": len(seen), "transitions": transitions, "violations": violations, "per_level": per_level,
            "capped": capped, "disabled": disabled, "samples": samples, "depth_completed": len(per_level) - 1}


def replay_history(sysname, params, hist, verbose=True):
    sysm = importlib.import_module(sysname)
    st = sysm.init(params)
    out = []
    for i, op in enumerate(hist):
        try:
            v = sysm.apply(st, op, params, check=True)
        except Disabled as e:
            if verbose:
                print("  op %d %r disabled: %s" % (i, op, e))
            break
        if verbose:
            print("  op %d %r -> %s" % (i, op, sysm.describe(st)))
        for c, d in v:
            out.append((c, d))
            if verbose:
                print("    VIOLATED clause=%s: %s" % (c, d))
    return out
